"""C10-R3..R6 — the template lookup lists.

Stylesheet keeps, per target name / node kind, a vector of XalanMatchPatternData entries; findTemplate walks such a vector from the
front.  "highest priority, then last in the stylesheet" therefore rests on
  R3  the builders (addToList, addToTable) leaving every vector sorted by (priority descending, position descending) — decided by
      interpreting their bodies on every small input (vectors of up to 3 entries over 3 priorities) — and nothing else writing them;
  R4  findTemplate's quiet branch taking the first matching entry, and both branches ranking entries by the key the vectors are
      sorted by (XalanMatchPatternData::getPriorityOrDefault), so that reporting conflicts cannot change the choice;
  R5  getPriorityOrDefault being 'explicit priority, else the default priority of the alternative that produced the entry';
  R6  an entry being tested with its own alternative only: entries are made per alternative of a union, so the match test must be
      restricted to that alternative (an argument of getMatchScore derived from the entry besides the expression)."""
import itertools
from ..build import AnalysisBroken
from ..mast import walk, calls, callee, strip_casts, Machine, Unsupported, pp, CFG
from ..facts import short
from . import common


class Pat:
    def __init__(self, prio, pos):
        self.prio, self.pos = prio, pos

    def __repr__(self):
        return '(%g,#%d)' % (self.prio, self.pos)


class Vec:
    def __init__(self, items=None):
        self.items = list(items or [])


class It:
    def __init__(self, vec, i):
        self.vec, self.i = vec, i

    def __eq__(self, o):
        return isinstance(o, It) and o.vec is self.vec and o.i == self.i

    def __ne__(self, o):
        return not self.__eq__(o)

    def __hash__(self):
        return hash((id(self.vec), self.i))


class Pair:
    def __init__(self, first, second):
        self.first, self.second = first, second


class VecMachine(Machine):
    """Machine plus a model of XalanVector / XalanMap iteration: begin end size empty insert [] and iterator arithmetic"""

    def __init__(self, facts, env):
        super().__init__(env, call_hook=self.hook)
        self.facts = facts

    def ev(self, e):
        k = e['k']
        if k == 'Member' and strip_casts(e.get('obj')) is not None and strip_casts(e['obj']).get('k') != 'This':
            o = self.ev(e['obj'])
            if isinstance(o, (Pair, Pat)):
                return getattr(o, e['m'])
        if k == 'Index':
            b = self.ev(e.get('b') if 'b' in e else e.get('base'))
            if isinstance(b, It):
                return b.vec.items[b.i + int(self.ev(e['i']))]
            if isinstance(b, Vec):
                return b.items[int(self.ev(e['i']))]
        if k == 'Un' and e['op'] == '*':
            v = self.ev(e['e'])
            if isinstance(v, It):
                return v.vec.items[v.i]
            return v
        if k == 'Un' and e['op'] in ('++', '--'):
            t = strip_casts(e['e'])
            old = self.ev(t)
            if isinstance(old, It):
                new = It(old.vec, old.i + (1 if e['op'] == '++' else -1))
                self.assign(t, new)
                return old if e.get('post') else new
        if k == 'Bin' and e['op'] in ('==', '!=', '<', '+', '-', '>=', '>', '<='):
            l, r = self.ev(e['lhs']), self.ev(e['rhs'])
            if isinstance(l, It) or isinstance(r, It):
                return self.itop(e['op'], l, r)
        return super().ev(e)

    def itop(self, op, l, r):
        if op == '+':
            return It(l.vec, l.i + r) if isinstance(l, It) else It(r.vec, r.i + l)
        if op == '-':
            return l.i - r.i if isinstance(r, It) else It(l.vec, l.i - r)
        a, b = l.i, r.i
        return int({'==': a == b, '!=': a != b, '<': a < b, '>': a > b, '<=': a <= b, '>=': a >= b}[op])

    def hook(self, m, c):
        k = c['k']
        n = c.get('n') or callee(c).split('::')[-1]
        if k == 'Ctor' and len(c.get('args', [])) == 1:
            return self.ev(c['args'][0])
        if k == 'OpCall':
            op = c['op']
            a = c['args']
            if op == '*' and len(a) == 1:
                v = self.ev(a[0])
                return v.vec.items[v.i] if isinstance(v, It) else v
            if op == '->' and len(a) == 1:
                v = self.ev(a[0])
                return v.vec.items[v.i] if isinstance(v, It) else v
            if op in ('++', '--'):
                t = strip_casts(a[0])
                old = self.ev(t)
                new = It(old.vec, old.i + (1 if op == '++' else -1))
                self.assign(t, new)
                return old if len(a) == 2 else new
            if op == '[]':
                v, i = self.ev(a[0]), self.ev(a[1])
                if isinstance(v, Vec):
                    return v.items[i]
                if isinstance(v, It):
                    return v.vec.items[v.i + i]
            if op in ('==', '!=', '<', '>', '<=', '>=', '+', '-') and len(a) == 2:
                l, r = self.ev(a[0]), self.ev(a[1])
                if isinstance(l, It) or isinstance(r, It):
                    return self.itop(op, l, r)
            if op == '=' and len(a) == 2:
                v = self.ev(a[1])
                self.assign(strip_casts(a[0]), v)
                return v
            return NotImplemented
        if k == 'MCall':
            o = self.ev(c['obj'])
            if isinstance(o, It) and n in ('getPriorityOrDefault', 'getPosition', 'getMatchScore'):
                o = o.vec.items[o.i]
            if isinstance(o, Pat):
                if n in ('getPriorityOrDefault', 'getMatchScore'):
                    return o.prio
                if n == 'getPosition':
                    return o.pos
            if isinstance(o, Vec):
                if n in ('begin', 'end'):
                    return It(o, 0 if n == 'begin' else len(o.items))
                if n == 'size':
                    return len(o.items)
                if n == 'empty':
                    return int(not o.items)
                if n == 'insert' and len(c['args']) == 2:
                    it, v = self.ev(c['args'][0]), self.ev(c['args'][1])
                    if not isinstance(it, It) or it.vec is not o or not (0 <= it.i <= len(o.items)):
                        raise Unsupported('insert at a foreign / out-of-range iterator')
                    o.items.insert(it.i, v)
                    return It(o, it.i)
                if n == 'push_back':
                    o.items.append(self.ev(c['args'][0]))
                    return 0
                if n == 'reserve':
                    return 0
                if n in ('back', 'front'):
                    if not o.items:
                        raise Unsupported('%s() of an empty vector' % n)
                    return o.items[-1 if n == 'back' else 0]
                if n == 'pop_back':
                    if not o.items:
                        raise Unsupported('pop_back of an empty vector')
                    o.items.pop()
                    return 0
            return NotImplemented
        if k == 'Call' and c.get('fn'):
            asts = self.facts.asts(short(c['fn']), must=False)
            if len(asts) == 1 and n in ('addToList', 'addToTable'):
                a = asts[0]
                sub = VecMachine(self.facts, {p['id']: self.ev(c['args'][i]) for i, p in enumerate(a['params'])})
                sub.fuel = 5000
                return sub.call(a['body'])
        return NotImplemented

    def assign(self, t, v):
        if t.get('k') == 'Ref' and t.get('d') in ('local', 'param'):
            self.env[t['id']] = v
        else:
            super().assign(t, v)


def key(p):
    return (-p.prio, -p.pos)


def is_sorted(items):
    return all(key(items[i]) <= key(items[i + 1]) for i in range(len(items) - 1))


PRIOS = (-0.5, 0.0, 0.5)


def sorted_lists(positions, maxlen, prios=PRIOS):
    for n in range(0, maxlen + 1):
        for ps in itertools.combinations(positions, n):
            for pr in itertools.product(prios, repeat=n):
                items = sorted([Pat(pr[i], ps[i]) for i in range(n)], key=key)
                yield items


def r3_builders(res, facts):
    r = res.rule('C10-R3', 'the template lists stay sorted by (priority descending, position descending): addToList and addToTable interpreted on every vector of up to 3 entries '
                 'over 3 priorities / every table of up to 2 such vectors, and no other function writes a pattern vector', floor=500)
    al = facts.asts('addToList', must=False)
    at = facts.asts('addToTable', must=False)
    if len(al) != 1 or len(at) != 1:
        raise AnalysisBroken('addToList / addToTable not found (%d, %d)' % (len(al), len(at)))
    al, at = al[0], at[0]
    bad = 0
    n = 0
    for items in sorted_lists((0, 1, 2, 3), 3):
        used = {p.pos for p in items}
        for pos in (0, 1, 2, 3, 4):
            if pos in used:
                continue
            for pr in PRIOS:
                n += 1
                vec = Vec(list(items))
                new = Pat(pr, pos)
                m = VecMachine(facts, {al['params'][0]['id']: vec, al['params'][1]['id']: new})
                m.fuel = 2000
                try:
                    m.call(al['body'])
                except Unsupported as u:
                    raise AnalysisBroken('addToList outside the interpreted subset: %s' % u)
                want = sorted(items + [new], key=key)
                if [id(x) for x in vec.items] != [id(x) for x in want]:
                    bad += 1
                    if bad <= 1:
                        r.violation('addToList(%s, %s)' % (items, new), 'leaves %s, required %s (highest priority first, later position first among equals)' % (vec.items, want), common.file_line(al))
                else:
                    r.ok('addToList(%s, %s)' % (items, new), str(vec.items))
    # addToTable: every list of the table receives every entry of the wildcard list, in order
    tb = 0
    for any_list in sorted_lists((0, 2, 5), 2, (0.0, 0.5)):
        if not any_list:
            continue
        for l1 in sorted_lists((1, 4), 2, (0.0, 0.5)):
            for l2 in ([], [Pat(0.5, 3)], [Pat(0.0, 3), Pat(0.0, 6)][::-1]):
                n += 1
                v1, v2, va = Vec(list(l1)), Vec(list(l2)), Vec(list(any_list))
                table = Vec([Pair('n1', v1), Pair('n2', v2)])
                m = VecMachine(facts, {at['params'][0]['id']: table, at['params'][1]['id']: va})
                m.fuel = 5000
                try:
                    m.call(at['body'])
                except Unsupported as u:
                    raise AnalysisBroken('addToTable outside the interpreted subset: %s' % u)
                for name, v, orig in (('n1', v1, l1), ('n2', v2, l2)):
                    want = sorted(list(orig) + list(any_list), key=key)
                    if [id(x) for x in v.items] != [id(x) for x in want]:
                        tb += 1
                        if tb <= 1:
                            r.violation('addToTable(list %s, wildcard rules %s)' % (list(orig), any_list), 'leaves %s, required %s: a rule that comes later in the stylesheet no longer '
                                        'precedes an earlier one of equal priority' % (v.items, want), common.file_line(at))
                    else:
                        r.ok('addToTable(list %s, wildcard rules %s)' % (list(orig), any_list))
                if [id(x) for x in va.items] != [id(x) for x in any_list]:
                    r.violation('addToTable: wildcard list', 'the wildcard list itself is modified', common.file_line(at))
    # who writes pattern vectors
    VT = 'XalanVector<const xalanc_1_12::XalanMatchPatternData *'
    writers = {}
    for k in facts.astidx:
        a = facts.ast(k)
        if a is None or not facts.lib_path(a['file']):
            continue
        local_ids = set()
        for x in walk(a['body']):
            if x['k'] == 'Decl':
                for v in x.get('vars', []):
                    if VT in (v.get('ty') or '') and '&' not in (v.get('ty') or ''):
                        local_ids.add(v['id'])
        for c in calls(a['body']):
            if c.get('k') == 'MCall' and VT in (c.get('cls') or '') and (c.get('n') in ('insert', 'push_back', 'erase', 'clear', 'swap', 'resize', 'assign', 'pop_back')):
                o = strip_casts(c.get('obj'))
                if isinstance(o, dict) and o.get('k') == 'Ref' and o.get('id') in local_ids:
                    continue
                writers.setdefault(short(facts.name[k]), []).append((a, c))
            if c.get('k') == 'OpCall' and c.get('op') == '=' and VT in (c.get('cls') or ''):
                writers.setdefault(short(facts.name[k]), []).append((a, c))
    for fn, lst in sorted(writers.items()):
        a, c = lst[0]
        base = fn.split('::')[-1]
        if base in ('addToList', 'addToTable'):
            r.ok('writer %s' % fn, 'interpreted above')
        elif all(isinstance(strip_casts(cc.get('obj')), dict) and strip_casts(cc['obj']).get('k') == 'Ref' and strip_casts(cc['obj']).get('d') == 'param' for _, cc in lst) and \
                not any('Pattern' in pp(x) for ce in facts.calls if short(ce.get('toName', '')) == fn for x in []):
            # a parameter of a helper: look at what the callers pass
            passed = []
            for k2 in facts.astidx:
                b = facts.ast(k2)
                if b is None or not facts.lib_path(b['file']):
                    continue
                for cc in calls(b['body']):
                    if (cc.get('n') or callee(cc).split('::')[-1]) == base and short(cc.get('fn') or '') == fn:
                        passed += [pp(x) for x in cc['args'] if VT in (strip_casts(x).get('ty') or '')]
            if any('m_' in x or 'second' in x for x in passed):
                r.violation('writer %s' % fn, 'a lookup list (%s) is handed to %s, which writes it outside the builders' % (passed, fn), common.file_line(a, c))
            else:
                r.ok('writer %s' % fn, 'parameter; callers pass %s' % (passed or 'nothing (not called with a vector)'))
        elif a['file'].endswith('Stylesheet.cpp') or 'Stylesheet' in fn:
            r.violation('writer %s' % fn, 'writes a pattern vector (%s) outside the builders whose ordering is decided here' % pp(c)[:60], common.file_line(a, c))
        else:
            r.ok('writer %s' % fn, 'not a Stylesheet lookup list')
    return r


def find_template(facts):
    c = [a for a in facts.asts('Stylesheet::findTemplate') if len(a['params']) == 5]
    if len(c) != 1:
        raise AnalysisBroken('Stylesheet::findTemplate(5 parameters): %d bodies' % len(c))
    return c[0]


def r4_find(res, facts):
    """Which entry of the look-up list findTemplate returns (first match in the quiet branch, rank by getPriorityOrDefault and first of the best in the reporting branch) was decided
    here on the shape of the two loops, by the names of their locals; C10-R12 decides it by value now (findTemplate interpreted, both branches), so this rule keeps only what R12
    does not reach: the imports."""
    r = res.rule('C10-R4', 'findTemplate: imports are consulted only when no entry of this stylesheet matched - in both branches every call of findTemplateInImports is dominated by '
                 '"the rule to be returned is still null" (the choice among the entries of one stylesheet is C10-R12\'s)', floor=2)
    a = find_template(facts)
    ret_ids = {strip_casts(x['e']).get('id') for x in walk(a['body']) if x['k'] == 'Return' and x.get('e') is not None and (strip_casts(x['e']) or {}).get('k') == 'Ref'
               and (strip_casts(x['e']) or {}).get('d') == 'local'}
    if not ret_ids:
        raise AnalysisBroken('findTemplate: no local is returned')
    cfg = CFG(a)
    must = common.must_conds(cfg)
    sites = common.find_call_nodes(cfg, 'findTemplateInImports')
    n_guarded = 0
    for n, c in sites:
        if n.kind == 'stmt' and n.ast is not None and n.ast.get('k') == 'Return':
            r.ok('findTemplate: the apply-imports entry (onlyUseImports) goes to the imports directly')
            continue
        ok = False
        for at, br in must.get(n.id, []):
            core, eff = common.norm_atom(at, br)
            if core is not None and core.get('k') == 'Bin' and core['op'] in ('==', '!='):
                l, rr = strip_casts(core['lhs']), strip_casts(core['rhs'])
                for v, z in ((l, rr), (rr, l)):
                    if v is not None and v.get('k') == 'Ref' and v.get('id') in ret_ids and z is not None and (z.get('cv') == 0 or z.get('k') == 'Nullptr'):
                        if (core['op'] == '==') == eff:
                            ok = True
        if ok:
            n_guarded += 1
            r.ok('findTemplate: imports consulted only when no rule of this stylesheet matched (call %d)' % n_guarded)
        else:
            r.violation('findTemplate: imports', 'findTemplateInImports is called where the rule to be returned may already be set: an imported rule replaces a matching rule of '
                        'higher import precedence', common.file_line(a, c))
    if n_guarded < 2:
        r.violation('findTemplate: imports', 'only %d of the two branches fall back to the imports when nothing matched' % n_guarded, common.file_line(a))
    return r


def r5_priority(res, facts):
    r = res.rule('C10-R5', 'XalanMatchPatternData::getPriorityOrDefault is the explicit priority of the template when there is one, else the default priority of the alternative '
                 'that produced the entry; addTemplate creates one entry per alternative with that alternative\'s default priority and a running position', floor=3)
    a = facts.asts('XalanMatchPatternData::getPriorityOrDefault')[0]
    for explicit in (float('-inf'), 0.25, -3.0):
        def hook(m, c, explicit=explicit):
            n = c.get('n') or callee(c).split('::')[-1]
            if n == 'getPriority':
                return explicit
            if n == 'isNegativeInfinity':
                return int(m.ev(c['args'][0]) == float('-inf'))
            if n == 'getMatchScoreValue':
                return ('default-of', m.ev(c['args'][0]))
            return NotImplemented
        m = Machine({'.m_priority': 'ALT'}, call_hook=hook)
        try:
            got = m.call(a['body'])
        except Unsupported as u:
            raise AnalysisBroken('getPriorityOrDefault outside the interpreted subset: %s' % u)
        want = ('default-of', 'ALT') if explicit == float('-inf') else explicit
        site = 'getPriorityOrDefault(explicit priority %s)' % explicit
        if got == want:
            r.ok(site, str(got))
        else:
            r.violation(site, 'yields %s, required %s' % (got, want), common.file_line(a))
    t = facts.asts('Stylesheet::addTemplate')[0]
    cr = [c for c in calls(t['body']) if (c.get('n') or '') == 'createXalanMatchPatternData']
    if len(cr) != 1:
        raise AnalysisBroken('addTemplate: %d createXalanMatchPatternData calls' % len(cr))
    args = [pp(strip_casts(x)) for x in cr[0]['args']]
    # the loop variable of the loop the call sits in, and the target-data vector it indexes (by type, not by name)
    loopvar = None
    for lp in walk(t['body']):
        if lp.get('k') == 'For' and any(y is cr[0] for y in walk(lp)) and lp.get('init') is not None:
            for y in walk(lp['init']):
                if y.get('k') == 'Decl' and y.get('vars'):
                    loopvar = y['vars'][0]['id']

    def per_alternative(x):
        x = strip_casts(x)
        if not (x is not None and x.get('k') == 'MCall' and x.get('n') == 'getDefaultPriority'):
            return False
        o = strip_casts(x.get('obj'))
        if o is None or not ((o.get('k') == 'OpCall' and o.get('op') == '[]') or o.get('k') == 'Index'):
            return False
        base, idx = (o['args'][0], o['args'][1]) if o.get('k') == 'OpCall' else (o['b'], o['i'])
        return 'TargetData' in (strip_casts(base).get('ty') or '') and strip_casts(idx).get('k') == 'Ref' and strip_casts(idx).get('id') == loopvar
    if 'm_patternCount' in args and any(per_alternative(x) for x in cr[0]['args']):
        inc = [x for x in walk(t['body']) if x['k'] == 'Un' and x['op'] == '++' and pp(strip_casts(x['e'])) == 'm_patternCount']
        if len(inc) == 1:
            r.ok('addTemplate: entry = (template, position m_patternCount++, data[i].getDefaultPriority())')
        else:
            r.violation('addTemplate: position', 'm_patternCount is incremented %d times per entry' % len(inc), common.file_line(t, cr[0]))
    else:
        r.violation('addTemplate: entry', 'entry created with (%s): not the running position and the alternative\'s default priority' % ', '.join(args)[:150], common.file_line(t, cr[0]))
    return r


def r6_alternative(res, facts):
    r = res.rule('C10-R6', 'an entry stands for ONE alternative of a union pattern (its target name and default priority come from that alternative), so the test that makes it '
                 'a candidate must be restricted to that alternative: getMatchScore in findTemplate receives something of the entry besides the whole expression', floor=2)
    a = find_template(facts)
    top = None
    for x in walk(a['body']):
        if x['k'] == 'If' and 'getQuietConflictWarnings' in pp(x['cond']):
            top = x
    if top is None:
        raise AnalysisBroken('findTemplate: the getQuietConflictWarnings() branch is gone')
    core, eff = common.norm_atom(top['cond'], True)
    quiet = top['then'] if eff else top.get('else')
    quiet_calls = {id(c) for c in calls(quiet)} if quiet is not None else set()
    n = 0
    for c in calls(a['body']):
        if c.get('k') == 'MCall' and c.get('n') == 'getMatchScore':
            n += 1
            branch = 'quiet' if id(c) in quiet_calls else 'conflict'
            site = 'findTemplate %s branch: getMatchScore of an entry' % branch
            derived = [pp(x) for x in c['args'] if 'matchPat' in pp(x)]
            if derived:
                r.ok(site, 'restricted by %s' % derived)
            else:
                r.violation(site, 'the entry is tested with the whole pattern (%s): for match="a | *[@k]" the entry of the alternative *[@k] (priority 0.5) is credited with a node that only '
                            'the alternative a (priority 0) matches, so the template outranks one of priority 0.25' % pp(c)[:80], common.file_line(a, c))
    if n != 2:
        raise AnalysisBroken('findTemplate: %d getMatchScore calls (2 expected)' % n)
    return r


def run(res, facts, tier):
    r3_builders(res, facts)
    r4_find(res, facts)
    r5_priority(res, facts)
    r6_alternative(res, facts)
    r7_imports(res, facts)
    r8_coverage(res, facts)
    r9_current_rule(res, facts)


def r7_imports(res, facts):
    """import precedence: the imports of a stylesheet are searched in the order of m_imports (highest precedence first), each with
    findTemplate — which is also what descends into that import's own imports — and the search stops only at a match."""
    from .c09 import natural_loops
    r = res.rule('C10-R7', 'findTemplateInImports: one loop over m_imports from index 0 upwards; every iteration calls findTemplate on that import (nothing skips an import: the call '
                 'is also the only way into the import\'s own imports); the only early exit is a rule that matched; Stylesheet::addImport puts a later (higher-precedence) import first', floor=4)
    a = facts.asts('Stylesheet::findTemplateInImports')[0]
    cfg = CFG(a)
    loops = natural_loops(cfg)
    if len(loops) != 1:
        r.violation('findTemplateInImports: loop', '%d loops where one loop over m_imports is expected' % len(loops), common.file_line(a))
        return r
    h, body = next(iter(loops.items()))

    def is_find(n):
        return n.ast is not None and any((c.get('n') or '') == 'findTemplate' and c.get('k') == 'MCall' for c in calls(n.ast))
    finds = [cfg.nodes[i] for i in body if is_find(cfg.nodes[i])]
    if not finds:
        r.violation('findTemplateInImports: findTemplate', 'the loop does not call findTemplate', common.file_line(a))
        return r
    # every path from the loop condition's true branch back to the head (or out of the loop) passes the call
    head = cfg.nodes[h]
    seen = set()
    work = list(head.succ)
    skipped = None
    while work:
        n = work.pop()
        if n.id in seen:
            continue
        seen.add(n.id)
        if is_find(n):
            continue
        if n.id == h:
            skipped = 'reaches the next iteration'
            break
        if n.id not in body:
            # leaving the loop before the call: fine only through the loop condition (no more imports)
            continue
        work.extend(n.succ)
    # the loop condition node is the first cond after the head; an exit from it is the normal end
    if skipped:
        r.violation('findTemplateInImports: every import is searched', 'a path through the loop body %s without calling findTemplate on the import: the import — and every stylesheet it '
                    'imports itself — is skipped, so a lower-precedence or built-in rule is chosen' % skipped, common.file_line(a, finds[0].ast))
    else:
        r.ok('findTemplateInImports: every iteration calls findTemplate on m_imports[i]')
    # receiver of the call is the i-th import; index runs upwards from 0
    txt = pp(finds[0].ast)
    decl = [x for x in walk(a['body']) if x.get('k') == 'Decl' and any('m_imports[' in pp(v.get('init')) for v in x.get('vars', []) if v.get('init') is not None)]
    fors = [x for x in walk(a['body']) if x.get('k') == 'For']
    ok_order = bool(fors) and fors[0].get('init') is not None and ' = 0' in (pp(fors[0]['init']) + ' = ' + ''.join(str(strip_casts(v.get('init')).get('cv')) for v in fors[0]['init'].get('vars', []) if v.get('init') is not None)) \
        and fors[0].get('inc') is not None and '++' in pp(fors[0]['inc']) and decl
    if ok_order:
        r.ok('findTemplateInImports: index 0 upwards over m_imports')
    else:
        r.violation('findTemplateInImports: order', 'the loop is not "for (i = 0; i < m_importsSize; ++i) m_imports[i]"', common.file_line(a))
    # early exits: returns inside the loop are guarded by bestMatchedRule != 0
    must = common.must_conds(cfg)
    bad = []
    for i in body:
        n = cfg.nodes[i]
        if n.ast is not None and n.ast.get('k') == 'Return':
            conds = [(pp(common.norm_atom(at, br)[0]), common.norm_atom(at, br)[1]) for at, br in must.get(n.id, [])]
            if not any(('bestMatchedRule' in t and '0' in t) for t, b in conds):
                bad.append(n)
    if bad:
        r.violation('findTemplateInImports: early exit', 'a return inside the loop is not guarded by "a rule matched"', common.file_line(a, bad[0].ast))
    else:
        r.ok('findTemplateInImports: returns inside the loop only with a matched rule')
    # addImport: a later import has higher precedence and must be found first
    for b in facts.asts('Stylesheet::addImport', must=False):
        ins = [c for c in calls(b['body']) if c.get('k') == 'MCall' and c.get('n') in ('insert', 'push_back') and 'm_imports' in pp(c.get('obj'))]
        if ins and ins[0]['n'] == 'insert' and 'm_imports.begin()' in pp(ins[0]['args'][0]):
            r.ok('Stylesheet::addImport: inserts at m_imports.begin()')
        else:
            r.violation('Stylesheet::addImport', 'a newly imported stylesheet is not put in front of the earlier imports (%s): the first xsl:import would win' % (pp(ins[0])[:60] if ins else 'no insertion'), common.file_line(b))
    return r


def r8_coverage(res, facts):
    """findTemplate looks a node up in the list of its kind (locateMatchPatternDataList).  addTemplate must file an entry in every list whose
    nodes the alternative can match; a missing list loses the rule for that node kind (an extra list only costs a failed match test)."""
    r = res.rule('C10-R8', 'Stylesheet::addTemplate files each entry in every lookup list whose node kind the alternative can match (decided by interpreting its dispatch on the pseudo name and '
                 'target type getTargetData produces): text() -> text, comment() -> comment, processing-instruction() -> pi, / -> root, node() and @node() -> element + attribute + text + comment + pi, '
                 '* -> element, @* -> attribute, id()/key() -> every list, a name -> the per-name table of its kind', floor=9)
    a = facts.asts('Stylesheet::addTemplate')[0]
    loop = None
    for x in walk(a['body']):
        if x.get('k') == 'For' and any((c.get('n') or '') == 'createXalanMatchPatternData' for c in calls(x)):
            loop = x
    if loop is None:
        raise AnalysisBroken('addTemplate: the loop over the target data is gone')
    body = loop['body']
    # statements after the entry is created: the if-chain on the pseudo name
    chain = [s for s in body.get('c', []) if s.get('k') == 'If']
    if not chain:
        raise AnalysisBroken('addTemplate: no dispatch on the pseudo name')
    tt = {n.split('::')[-1]: v for n, v in facts.enumconst.items() if '::XPath::TargetData::e' in n}
    CASES = [
        ('TEXT', 'eOther', {'text'}), ('COMMENT', 'eOther', {'comment'}), ('PI', 'eOther', {'pi'}), ('ROOT', 'eOther', {'root'}),
        ('NODE', 'eOther', {'elementAny', 'attributeAny', 'text', 'comment', 'pi'}),      # '@node()' is filed under the same pseudo name as 'node()'
        ('ANY', 'eElement', {'elementAny'}), ('ANY', 'eAttribute', {'attributeAny'}),
        ('ANY', 'eAny', {'elementAny', 'attributeAny', 'text', 'comment', 'pi', 'root'}),
        ('name', 'eElement', {'elementTable[name]'}), ('name', 'eAttribute', {'attributeTable[name]'}),
    ]
    LIST = {'m_textPatternList': 'text', 'm_commentPatternList': 'comment', 'm_piPatternList': 'pi', 'm_rootPatternList': 'root', 'm_nodePatternList': 'node',
            'm_elementAnyPatternList': 'elementAny', 'm_attributeAnyPatternList': 'attributeAny'}
    for pseudo, ttype, need in CASES:
        filed = set()

        def hook(m, c, pseudo=pseudo, ttype=ttype):
            n = c.get('n') or callee(c).split('::')[-1]
            if n == 'equals':
                x, y = m.ev(c['args'][0]), m.ev(c['args'][1])
                return int(x == y)
            if n == 'getTargetType':
                return tt[ttype]
            if n == 'addToList':
                t = strip_casts(c['args'][0])
                if t.get('k') == 'Member':
                    filed.add(LIST.get(t['m'], t['m']))
                elif t.get('k') == 'OpCall' and t.get('op') == '[]':
                    base = strip_casts(t['args'][0])
                    filed.add({'m_elementPatternTable': 'elementTable[name]', 'm_attributePatternTable': 'attributeTable[name]'}.get(base.get('m'), pp(t)))
                else:
                    filed.add(pp(t))
                return 0
            if c['k'] == 'OpCall' and c['op'] == '[]':
                return 0
            return NotImplemented

        def ghook(q):
            if 'PSEUDONAME_' in q:
                return q.split('PSEUDONAME_')[-1]
            return NotImplemented
        env = {}
        for x in walk(a['body']):
            if x.get('k') == 'Decl':
                for v in x.get('vars', []):
                    if (v.get('ty') or '').replace('xalanc_1_12::', '').strip() == 'XalanDOMString &':      # the target string of the entry being filed
                        env[v['id']] = pseudo
        m = Machine(env, call_hook=hook, global_hook=ghook)
        try:
            for s in chain:
                m.exec(s)
        except Unsupported as u:
            raise AnalysisBroken('addTemplate dispatch outside the interpreted subset: %s' % u)
        site = 'addTemplate: entry for %s' % {'TEXT': 'text()', 'COMMENT': 'comment()', 'PI': 'processing-instruction()', 'ROOT': '/', 'NODE': 'node()',
                                            'ANY': {'eElement': '*', 'eAttribute': '@*', 'eAny': 'id() / key()'}.get(ttype, '*'), 'name': 'a name test (%s)' % ttype[1:].lower()}[pseudo]
        missing = need - filed
        if missing:
            r.violation(site, 'filed in %s; nodes looked up in %s never see the rule' % (sorted(filed) or 'no list', sorted(missing)), common.file_line(a, chain[0]))
        else:
            r.ok(site, 'filed in %s' % sorted(filed))
    return r


def r9_current_rule(res, facts):
    """xsl:apply-imports looks among the rules imported into the stylesheet of the CURRENT TEMPLATE RULE: set by apply-templates (the matched rule),
    unchanged by call-template, null inside for-each (XSLT 1.0 §5.6, §6, §8)."""
    r = res.rule('C10-R9', 'current template rule protocol: ElemTemplate::startElement pushes itself except when invoked by xsl:call-template (then it keeps the caller\'s rule); xsl:for-each '
                 'pushes a null rule; every push has its pop in the matching endElement; apply-imports searches the imports of the current rule\'s stylesheet', floor=4)
    cands = [a for a in facts.asts('ElemTemplate::startElement') if a['file'].endswith('ElemTemplate.cpp')]
    if len(cands) != 1:
        raise AnalysisBroken('ElemTemplate::startElement: %d bodies' % len(cands))
    a = cands[0]
    cfg = CFG(a)
    must = common.must_conds(cfg)
    pushes = common.find_call_nodes(cfg, 'pushCurrentTemplate')
    self_ok = keep_ok = False
    for n, c in pushes:
        arg = strip_casts(c['args'][0])
        conds = [(pp(common.norm_atom(at, br)[0]), common.norm_atom(at, br)[1]) for at, br in must.get(n.id, [])]
        call_cond = [b for t, b in conds if 'ELEMNAME_CALL_TEMPLATE' in t and '==' in t]
        ncall_cond = [b for t, b in conds if 'ELEMNAME_CALL_TEMPLATE' in t and '!=' in t]
        invoked_by_call = (True in call_cond) or (False in ncall_cond)
        not_by_call = (False in call_cond) or (True in ncall_cond) or any('theInvoker' in t and ('== 0' in t or '0 ==' in t) and b for t, b in conds) or any(t.startswith('(theInvoker != 0') and not b for t, b in conds)
        if arg.get('k') == 'This':
            if not_by_call or not invoked_by_call and any('ELEMNAME_CALL_TEMPLATE' in t for t, b in conds) is False and False:
                self_ok = True
            elif not invoked_by_call and not any('ELEMNAME_CALL_TEMPLATE' in pp(x) for x in walk(a['body'])):
                r.violation('ElemTemplate::startElement: current template rule', 'the template pushes itself as the current template rule whatever invoked it: inside a template called '
                            'with xsl:call-template, xsl:apply-imports then searches the imports of the named template\'s stylesheet instead of those of the caller\'s rule', common.file_line(a, c))
                self_ok = keep_ok = None
            else:
                self_ok = self_ok or not invoked_by_call
        elif 'getCurrentTemplate' in pp(arg):
            keep_ok = keep_ok or invoked_by_call
    if self_ok is None:
        pass
    elif self_ok and keep_ok:
        r.ok('ElemTemplate::startElement: pushes itself unless invoked by xsl:call-template, then the caller\'s rule')
    elif not pushes:
        r.violation('ElemTemplate::startElement: current template rule', 'no pushCurrentTemplate', common.file_line(a))
    else:
        r.violation('ElemTemplate::startElement: current template rule', 'pushes: %s — the rule of the caller is not kept for xsl:call-template (self %s, keep %s)' % ([pp(c)[:50] for n, c in pushes], self_ok, keep_ok), common.file_line(a))
    for b in [x for x in facts.asts('ElemTemplate::endElement') if x['file'].endswith('ElemTemplate.cpp')]:
        if any((c.get('n') or '') == 'popCurrentTemplate' for c in calls(b['body'])):
            r.ok('ElemTemplate::endElement: pops the current template rule')
        else:
            r.violation('ElemTemplate::endElement', 'the rule pushed by startElement is not popped', common.file_line(b))
    fe = [x for x in facts.asts('ElemForEach::startElement', must=False) if x['file'].endswith('ElemForEach.cpp')]
    for b in fe:
        ps = [c for c in calls(b['body']) if (c.get('n') or '') == 'pushCurrentTemplate']
        if ps and all(strip_casts(c['args'][0]).get('cv') == 0 or strip_casts(c['args'][0]).get('k') == 'Nullptr' for c in ps):
            r.ok('ElemForEach::startElement: the current template rule is null inside xsl:for-each')
        else:
            r.violation('ElemForEach::startElement', 'xsl:for-each does not reset the current template rule to null (%s)' % [pp(c) for c in ps], common.file_line(b))
    tc = [x for x in facts.asts_t('ElemTemplateElement::findTemplateToTransformChild', must=False)]
    n_ok = 0
    for b in tc:
        txt = ' '.join(pp(x) for x in walk(b['body']) if x.get('k') == 'Cond')
        if 'getCurrentTemplate().getStylesheet()' in txt.replace('->', '.').replace('executionContext.', '') or 'getCurrentTemplate' in txt and 'getStylesheet' in txt:
            n_ok += 1
    if n_ok:
        r.ok('findTemplateToTransformChild: apply-imports starts from the stylesheet of the current template rule (%d overloads)' % n_ok)
    else:
        r.violation('findTemplateToTransformChild', 'apply-imports no longer starts from the stylesheet of the current template rule', None)
    return r
