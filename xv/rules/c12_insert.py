"""C12-R6 — the ordered insert by interpretation.

MutableNodeRefList::addNodeInDocOrder with the routines it calls (findInsertionPointBinarySearch, findInsertionPointLinearSearch<Pred>, DocumentPredicate,
IndexPredicate, ExecutionContextPredicate, addNode) is interpreted on every sequence of insertions, up to a bound, of nodes drawn from two documents
(the document node and four nodes below it; the document node and two), once with node indexes available and once without (then the order inside one document is asked from
the execution context, modelled by its contract: defined for two non-document nodes of one document).  After every sequence the list must be
  (a) duplicate-free,
  (b) in document order inside each document, the document node first,
  (c) without interleaving of the two documents,
and (d) two sequences that insert the same set of nodes must produce the same list (the order of documents does not depend on history).
Nothing here runs the library: the function bodies are read from the parsed program and stepped over abstract nodes."""
import itertools
from ..build import AnalysisBroken
from ..mast import Unsupported, callee, strip_casts, pp
from ..facts import NS, short
from . import common
from .c10_lists import VecMachine, Vec, It


class AssertFailed(Exception):
    pass


class Node:
    def __init__(self, doc, idx, kind, indexed):
        self.doc, self.idx, self.kind, self.indexed = doc, idx, kind, indexed
        self.root = None

    def __repr__(self):
        return ('/%s' % self.doc) if self.kind == 'doc' else '%s%d' % (self.doc, self.idx)


class PredObj:
    def __init__(self, cls):
        self.cls = cls


class IMachine(VecMachine):
    def __init__(self, world, env):
        VecMachine.__init__(self, world.facts, env)
        self.world = world
        self.call_hook = self.hook2
        self.fuel = 3000

    def ev(self, e):
        k = e['k']
        if k == 'Un' and e['op'] == '*':
            v = self.ev(e['e'])
            if isinstance(v, It):
                if not (0 <= v.i < len(v.vec.items)):
                    raise AssertFailed('iterator dereferenced outside the list (position %d of %d)' % (v.i, len(v.vec.items)))
                return v.vec.items[v.i]
            return v
        if k == 'Cast' and e.get('ck') == 'PointerToBoolean':
            v = self.ev(e['e'])
            return int(v is not None and v != 0)
        if k == 'Un' and e['op'] == '&':
            return self.ev(e['e'])
        if k == 'Bin' and e['op'] in ('==', '!='):
            l, r = self.ev(e['lhs']), self.ev(e['rhs'])
            if isinstance(l, Node) or isinstance(r, Node):
                same = (l is r)
            else:
                same = (l == r)
            return int(bool(same) == (e['op'] == '=='))
        return super().ev(e)

    def call_body(self, a, c, args, this_env=None):
        w = self.world
        env = {p['id']: v for p, v in zip(a['params'], args)}
        if this_env is not None:
            env.update(this_env)
        w.depth += 1
        if w.depth > 10:
            raise Unsupported('call depth')
        try:
            sub = IMachine(w, env)
            sub.fuel = self.fuel
            r = sub.call(a['body'])
            self.fuel = sub.fuel
            # reference out-parameters
            for p, x in zip(a['params'], c.get('args', [])):
                ty = p.get('ty', '')
                if ty.rstrip().endswith('&') and not ty.lstrip().startswith('const'):
                    t = strip_casts(x)
                    if t.get('k') == 'Ref' and t.get('d') in ('local', 'param') and p['id'] in sub.env:
                        self.env[t['id']] = sub.env[p['id']]
            if this_env is not None:
                for k in this_env:
                    this_env[k] = sub.env[k]
            w.interpreted.add(short(a.get('q') or c.get('fn') or '?').split('<')[0])
            return r
        finally:
            w.depth -= 1

    def ev_arg(self, x):
        t = strip_casts(x)
        if t.get('k') == 'Ref' and t.get('d') == 'local' and t['id'] not in self.env:
            return 'UNINIT'
        return self.ev(x)

    def this_env(self):
        return {k: v for k, v in self.env.items() if isinstance(k, str) and k.startswith('.')}

    def hook2(self, m, c):
        w = self.world
        k = c['k']
        n = c.get('n') or callee(c).split('::')[-1]
        cls = c.get('cls') or ''
        if n == '__assert_fail':
            raise AssertFailed('assertion fails: ' + pp(c['args'][0])[:120] if c.get('args') else 'assertion fails')
        if k == 'Ctor':
            if cls.endswith('Predicate'):
                if len(c.get('args', [])) == 1:
                    v = self.ev(c['args'][0])
                    if isinstance(v, PredObj):
                        return v
                return PredObj(cls)
            if len(c.get('args', [])) == 0:
                return 'UNINIT'
            if len(c['args']) == 1:
                return self.ev(c['args'][0])
        if k == 'OpCall' and c.get('op') == '()' and c.get('usr'):
            a = w.facts.ast(c['usr'])
            if a is not None and a.get('body') is not None and 'Predicate' in cls:
                return self.call_body(a, {'args': c['args'][1:]}, [self.ev(x) for x in c['args'][1:]], this_env={})
        if k == 'Call' and c.get('usr'):
            a = w.facts.ast(c['usr'])
            if a is not None and a.get('body') is not None and a['file'].endswith('MutableNodeRefList.cpp'):
                return self.call_body(a, c, [self.ev_arg(x) for x in c['args']])
            if n.startswith('findInsertionPoint'):
                raise Unsupported('no body for ' + n)
        if k == 'MCall':
            o = strip_casts(c.get('obj'))
            if n == 'isNodeAfter':
                n1, n2 = self.ev(c['args'][0]), self.ev(c['args'][1])
                if n1.kind == 'doc' or n2.kind == 'doc' or n1.doc != n2.doc:
                    raise AssertFailed('isNodeAfter(%r, %r): the structural comparison is defined for two non-document nodes of one document' % (n1, n2))
                w.asked_ctx += 1
                return int(n1.idx > n2.idx)
            if o is None or o.get('k') == 'This':
                a = w.facts.ast(c['usr']) if c.get('usr') else None
                if a is not None and a.get('body') is not None and not c.get('virt'):
                    te = self.this_env()
                    r = self.call_body(a, c, [self.ev(x) for x in c.get('args', [])], this_env=te)
                    self.env.update(te)
                    return r
                if n == 'addNode':
                    a = [x for x in w.facts.asts('MutableNodeRefList::addNode') if len(x['params']) == 1]
                    te = self.this_env()
                    r = self.call_body(a[0], c, [self.ev(x) for x in c.get('args', [])], this_env=te)
                    self.env.update(te)
                    return r
            ov = self.ev(c['obj'])
            if isinstance(ov, It):
                ov = ov.vec.items[ov.i]
            if isinstance(ov, Node):
                if n == 'getNodeType':
                    return w.T_DOC if ov.kind == 'doc' else w.T_ELEM
                if n == 'getOwnerDocument':
                    return 0 if ov.kind == 'doc' else ov.root
                if n == 'isIndexed':
                    return int(ov.indexed)
                if n == 'getIndex':
                    if not ov.indexed:
                        raise AssertFailed('getIndex() of a node of a document without indexes')
                    return ov.idx
                raise Unsupported('node method ' + n)
            if isinstance(ov, Vec) and n == 'insert' and len(c['args']) == 2:
                it = self.ev_arg(c['args'][0])
                if not isinstance(it, It) or it.vec is not ov or not (0 <= it.i <= len(ov.items)):
                    raise AssertFailed('insert at a position that was never computed (%r)' % (it,))
            if isinstance(ov, Vec):
                if n == 'back':
                    return ov.items[-1]
                if n == 'front':
                    return ov.items[0]
        return VecMachine.hook(self, m, c)


class World:
    def __init__(self, facts):
        self.facts = facts
        self.T_DOC = facts.enumconst.get(NS + 'XalanNode::DOCUMENT_NODE')
        self.T_ELEM = facts.enumconst.get(NS + 'XalanNode::ELEMENT_NODE')
        if self.T_DOC is None or self.T_ELEM is None:
            raise AnalysisBroken('XalanNode::DOCUMENT_NODE / ELEMENT_NODE not found')
        self.depth = 0
        self.asked_ctx = 0
        self.interpreted = set()


def universe(indexed):
    out = []
    for d in 'AB':
        root = Node(d, 1, 'doc', indexed)
        root.root = root
        out.append(root)
        for i in ((2, 3, 4, 5) if d == 'A' else (2, 3)):
            n = Node(d, i, 'elem', indexed)
            n.root = root
            out.append(n)
    return out


def verdicts(items):
    """the defects of one delivered list: set of (kind, detail)"""
    out = []
    if len({id(x) for x in items}) != len(items):
        out.append(('duplicate', 'a node is delivered twice'))
    docs = []
    for x in items:
        if not docs or docs[-1] != x.doc:
            docs.append(x.doc)
    if len(docs) != len(set(docs)):
        out.append(('interleaved', 'nodes of two documents are interleaved'))
    for d in set(docs):
        sub = [x for x in items if x.doc == d]
        if any(x.kind == 'doc' for x in sub[1:]) and sub[0].kind != 'doc':
            out.append(('root', 'the document node is delivered after nodes of its own document'))
        idx = [x.idx for x in sub]
        if [i for i in idx if i != 1] != sorted(set(i for i in idx if i != 1)) and len(set(idx)) == len(idx):
            out.append(('order', 'nodes of one document are out of document order'))
    return out


def run_rule(res, facts, tier):
    r = res.rule('C12-R6', 'MutableNodeRefList::addNodeInDocOrder with its search routines and predicates, interpreted on every insertion sequence (bounded) of nodes of two documents, '
                 'with and without node indexes: the list stays duplicate-free, in document order inside a document with the document node first, the documents are never interleaved, '
                 'and the same set of nodes gives the same list whatever the insertion order', floor=4500)
    a = [x for x in facts.asts('MutableNodeRefList::addNodeInDocOrder') if len(x['params']) == 2]
    if len(a) != 1:
        raise AnalysisBroken('MutableNodeRefList::addNodeInDocOrder(node, context): %d bodies' % len(a))
    a = a[0]
    world = World(facts)
    maxlen = 5 if tier == 'thorough' else 4
    found = {}
    n_seq = 0
    for indexed in (True, False):
        U = universe(indexed)
        # the interesting subsets: at most 3 distinct nodes per document, all orders, one repetition
        by_set = {}
        for k in range(1, maxlen + 1):
            for seq in itertools.permutations(U, k):
                for rep in ([None] if k == maxlen else [None, seq[0]]):
                    full = list(seq) + ([rep] if rep is not None else [])
                    vec = Vec([])
                    env = {'.m_nodeList': vec, '.m_order': 0}
                    outcome = None
                    try:
                        for nd in full:
                            mm = IMachine(world, dict(env))
                            mm.env[a['params'][0]['id']] = nd
                            mm.env[a['params'][1]['id']] = 'CTX'
                            mm.call(a['body'])
                            env['.m_order'] = mm.env.get('.m_order', 0)
                    except AssertFailed as x:
                        outcome = [('assert', str(x))]
                    except Unsupported as u:
                        raise AnalysisBroken('addNodeInDocOrder outside the interpreted subset on %s: %s' % (full, u))
                    n_seq += 1
                    site = 'insert %s (%s)' % (' '.join(map(repr, full)), 'indexed' if indexed else 'no indexes')
                    if outcome is None:
                        outcome = verdicts(vec.items)
                        key = frozenset(id(x) for x in full)
                        got = tuple(vec.items)
                        if not outcome:
                            if key in by_set and by_set[key][0] != got:
                                outcome = [('history', 'the same nodes inserted as %s give %s' % (by_set[key][1], ' '.join(map(repr, by_set[key][0]))))]
                            else:
                                by_set.setdefault(key, (got, ' '.join(map(repr, full))))
                    if not outcome:
                        r.ok(site, ' '.join(map(repr, vec.items)))
                    else:
                        for kind, detail in outcome:
                            kk = (kind, indexed)
                            if kk not in found:
                                found[kk] = (site, detail, ' '.join(map(repr, vec.items)))
                            r.instances += 1
    LABEL = {'duplicate': 'a node twice in the list', 'interleaved': 'documents interleaved', 'root': 'document node after its descendants', 'order': 'out of document order',
             'history': 'order of documents depends on insertion history', 'assert': 'precondition of a callee violated'}
    for (kind, indexed), (site, detail, got) in sorted(found.items(), key=lambda x: (x[0][0], not x[0][1])):
        r.instances -= 1
        r.violation('ordered insert, %s: %s' % ('indexed documents' if indexed else 'documents without indexes', LABEL[kind]),
                    '%s: %s -> list %s' % (detail, site, got), common.file_line(a))
    r.note('%d insertion sequences; interpreted bodies: %s; structural comparisons asked of the context: %d' % (n_seq, sorted(world.interpreted), world.asked_ctx))
    return r
