"""C04-R14 — the encoding a serializer declares is the encoding its stream writes.

XalanXMLSerializerFactory::setEncoding(manager, writer, theEncoding) sets the output stream's encoding and hands the name back through its in/out parameter; the caller
builds the serializer with that name, and the serializer writes it into the XML declaration.  When the requested encoding is not supported the stream falls back to UTF-8 -
and the name must follow, or the declaration names an encoding the bytes are not in (no parser can read the document, or reads other characters).
Every function that takes a non-const XalanDOMString& and calls setOutputEncoding is walked path by path (the CFG of such a function is small and acyclic; a handler is
entered as if the guarded call had had no effect): at every normal exit the argument of the last setOutputEncoding that took effect on the path must be the value the in/out
parameter has at that exit."""
from ..build import AnalysisBroken
from ..mast import walk, calls, callee, strip_casts, pp, CFG
from ..facts import short
from . import common


def run_rule(res, facts, tier):
    r = res.rule('C04-R14', 'the encoding name handed back for the XML declaration is the encoding the stream was set to: in every function with an in/out XalanDOMString& parameter that calls '
                 'setOutputEncoding, on every path to a normal exit the last setOutputEncoding that took effect has the value of the parameter at the exit as its argument', floor=2)
    n_fn = 0
    for usr in facts.astidx:
        a = facts.ast(usr)
        if a is None or a.get('body') is None or not facts.lib_path(a['file']):
            continue
        if not any((c.get('n') or '') == 'setOutputEncoding' for c in calls(a['body'])):
            continue
        outs = [p for p in a['params'] if (p.get('ty') or '').replace('xalanc_1_12::', '').strip() == 'XalanDOMString &']
        if len(outs) != 1:
            continue
        pid = outs[0]['id']
        n_fn += 1
        fn = short(a.get('fq') or a.get('name') or '?')
        cfg = CFG(a)

        def canon(e, var):
            e = strip_casts(e)
            if e is None:
                return '?'
            if e.get('k') == 'Ref' and e.get('id') == pid:
                return var
            if e.get('k') == 'Ctor' and e.get('args'):
                return canon(e['args'][0], var)
            if e.get('k') in ('Ref', 'Member'):
                return pp(e).split('::')[-1]
            return pp(e)[:60]

        def effect(node, state, in_handler_of=None):
            stream, var = state
            if node.ast is None or node.kind not in ('stmt', 'cond'):
                return state
            for x in walk(node.ast):
                if x.get('k') in ('Bin', 'OpCall') and x.get('op') == '=':
                    l = strip_casts(x['lhs'] if x['k'] == 'Bin' else x['args'][0])
                    if l is not None and l.get('k') == 'Ref' and l.get('id') == pid:
                        var = canon(x['rhs'] if x['k'] == 'Bin' else x['args'][1], var)
                if x.get('k') == 'MCall' and x.get('n') == 'setOutputEncoding' and x.get('args'):
                    stream = canon(x['args'][0], var)
                if x.get('k') == 'MCall' and x.get('n') in ('assign', 'clear') and (strip_casts(x.get('obj')) or {}).get('id') == pid:
                    var = canon(x['args'][0], var) if x.get('args') else "''"
            return (stream, var)
        bad = {}
        n_paths = 0
        stack = [(cfg.entry, (None, 'the requested name'), frozenset())]
        while stack:
            node, state, seen = stack.pop()
            if node.id in seen:
                continue
            if node is cfg.exit:
                n_paths += 1
                stream, var = state
                if stream is not None and stream != var:
                    bad.setdefault((stream, var), 0)
                    bad[(stream, var)] += 1
                continue
            if node is cfg.throw:
                continue
            st2 = effect(node, state)
            for s2 in node.succ:
                stack.append((s2, st2, seen | {node.id}))
            if n_paths > 5000:
                raise AnalysisBroken('%s: too many paths' % fn)
        if n_paths == 0:
            res.broken.append('C04-R14: no path through %s reaches a normal exit' % fn); r.instances += 1
            continue
        if bad:
            (stream, var), k = sorted(bad.items())[0]
            r.violation('%s: declared encoding' % fn, 'on %d of %d paths the stream is set to %s while the name handed back is %s: the XML declaration names an encoding the bytes are not written in' %
                        (sum(bad.values()), n_paths, stream, var), common.file_line(a))
        else:
            r.ok('%s: declared encoding' % fn, '%d paths' % n_paths)
            r.instances += n_paths - 1
    if n_fn == 0:
        raise AnalysisBroken('no function with an in/out encoding name calls setOutputEncoding (XalanXMLSerializerFactory::setEncoding expected)')
    return r
