"""E3 — constant-table lint: decoding of static tables, the repository's string comparators, sortedness."""
from ..build import AnalysisBroken
from ..facts import short
from ..mast import walk, calls, callee, strip_casts


def as_string(facts, cell):
    """a cell that designates a XalanDOMChar[] / char[] constant -> python str (without terminator); None if not a string"""
    v = facts.resolve(cell)
    if isinstance(v, dict) and 'str' in v:
        return v['str']
    if isinstance(v, list):
        out = []
        for x in v:
            x = facts.resolve(x)
            if x == '<filler>':
                break
            if isinstance(x, dict) and 'v' in x:
                x = x['v']
            if not isinstance(x, int):
                return None
            if x == 0:
                break
            out.append(chr(x))
        return ''.join(out)
    return None


def cell_name(cell):
    if isinstance(cell, dict):
        return short(cell.get('ref') or cell.get('enum') or '')
    return ''


def enum_of(cell):
    if isinstance(cell, dict) and 'enum' in cell:
        return short(cell['enum'])
    return None


def to_upper_ascii(c):
    return c.upper() if 'a' <= c <= 'z' else c


def xalan_compare(a, b, transform=None):
    """model of doCompare(): shorter string first; equal lengths: difference of the first differing (transformed) unit"""
    if len(a) < len(b):
        return -1
    if len(b) < len(a):
        return 1
    for x, y in zip(a, b):
        if transform:
            x, y = transform(x), transform(y)
        if x != y:
            return ord(x) - ord(y)
    return 0


def check_docompare_shape(facts):
    """the model above is only valid while doCompare keeps its shape: length comparison first, returning -1 / 1"""
    asts = [facts.ast(u) for u in facts.astbyname.get('xalanc_1_12::doCompare', [])]
    asts = [a for a in asts if len(a['params']) == 5]   # (lhs, lhsLength, rhs, rhsLength, transform)
    if not asts:
        raise AnalysisBroken('doCompare has no instantiation')
    for a in asts:
        body = a['body']['c']
        first = body[0] if body else None
        ok = False
        if first and first['k'] == 'If':
            c = first['cond']
            if c.get('k') == 'Bin' and c['op'] == '<':
                l, r = strip_casts(c['lhs']), strip_casts(c['rhs'])
                if l.get('n') == a['params'][1]['n'] and r.get('n') == a['params'][3]['n']:
                    rets = [x for x in walk(first['then']) if x['k'] == 'Return']
                    if rets and strip_casts(rets[0]['e']).get('cv') == -1:
                        ok = True
        if not ok:
            raise AnalysisBroken('doCompare no longer starts with "if (lhsLength < rhsLength) return -1": comparator model invalid')
    return len(asts)


def comparator_of(facts, fn_qname, allowed):
    """which comparator does the search routine call? returns its unqualified name; AnalysisBroken if none of `allowed`"""
    found = set()
    for a in facts.asts(fn_qname):
        for c in calls(a['body']):
            n = (c.get('n') or callee(c).split('::')[-1])
            if n in allowed:
                found.add(n)
    if len(found) != 1:
        raise AnalysisBroken('%s calls comparators %s, expected exactly one of %s' % (fn_qname, sorted(found), sorted(allowed)))
    return found.pop()


TRANSFORMS = {'compare': None, 'compareIgnoreCaseASCII': to_upper_ascii, 'equalsIgnoreCaseASCII': to_upper_ascii}
