"""C11-R10 — a node asked for directly as a number (boolean, string) is converted through its string-value.

The typed entry points end in static helpers of XObject: number(context, node), number(context, node list), boolean(node list), string(node, ...).  XPath 1.0 4.4 defines the
number of a node-set as the number of its string-value, the string-value of its first node in document order; 5.1-5.7 define the string-value per node kind (an element:
the concatenation of ALL its text descendants).  The helpers are interpreted on node models - attribute, text, comment, elements with one text child, with text split by a
comment, with text followed by an element, with text only inside child elements, empty - with the string-value computation itself (DOMServices::getNodeData, C11-R7's and
C13's) as the model sval(node).  Whatever the helper does instead of asking for the string-value (a short cut through the first child, the node value) shows as a value
that differs from number(string-value)."""
import itertools
from ..build import AnalysisBroken
from ..mast import Unsupported, callee, strip_casts, pp
from ..facts import NS
from ..omach import OMachine, Obj, Vec, It, Fault
from . import common
from .c02_expr import str_to_num


class N:
    identity = True

    def __init__(self, kind, value='', children=()):
        self.kind, self.value = kind, value
        self.children = list(children)
        self.parent = None
        for c in self.children:
            c.parent = self

    def sval(self):
        if self.kind in ('attr', 'text', 'comment', 'pi'):
            return self.value
        return ''.join(c.sval() for c in self.children if c.kind in ('text', 'elem'))

    def __repr__(self):
        if self.kind == 'elem':
            return '<e>%s</e>' % ''.join(repr(c) for c in self.children)
        return {'text': self.value, 'comment': '<!--%s-->' % self.value, 'attr': '@a="%s"' % self.value, 'pi': '<?p %s?>' % self.value}[self.kind]


class NWorld:
    def __init__(self, facts):
        self.facts = facts
        self.depth = 0; self.calls = 0; self.max_calls = 3000
        self.T = {k: facts.enumconst.get(NS + 'XalanNode::' + v) for k, v in (('elem', 'ELEMENT_NODE'), ('attr', 'ATTRIBUTE_NODE'), ('text', 'TEXT_NODE'), ('comment', 'COMMENT_NODE'),
                                                                                ('pi', 'PROCESSING_INSTRUCTION_NODE'))}
        if None in self.T.values():
            raise AnalysisBroken('node type constants not found')

    def tables(self, q):
        return None

    def glob(self, name):
        n = name.split('::')[-1]
        return '' if n == 's_emptyString' else ('GLOBAL', n)

    def allow(self, body, c):
        f = body['file']
        nm = (body.get('fq') or '').split('::')[-1]
        return f.endswith(('XPath/XObject.cpp', 'XPath/XObject.hpp')) and nm in ('number', 'boolean', 'string')

    def destructor(self, o):
        return None

    def hook(self, m, c):
        k = c['k']
        n = c.get('n') or callee(c).split('::')[-1]
        cls = c.get('cls') or ''
        fn = c.get('fn') or ''
        if k == 'Ctor' and 'GetCachedString' in cls:
            return Obj('guard', {})
        if k == 'MCall':
            tgt = m.target_obj(c)
            a = c.get('args', [])
            if isinstance(tgt, Obj) and tgt.cls == 'guard' and n == 'get':
                return ''
            if isinstance(tgt, Obj) and tgt.cls == 'ectx' and n == 'getMemoryManager':
                return 'MM'
            if isinstance(tgt, N):
                if n == 'getNodeType':
                    return self.T[tgt.kind]
                if n == 'getFirstChild':
                    return tgt.children[0] if tgt.children else 0
                if n == 'getLastChild':
                    return tgt.children[-1] if tgt.children else 0
                if n == 'getNextSibling':
                    if tgt.parent is None:
                        return 0
                    i = tgt.parent.children.index(tgt)
                    return tgt.parent.children[i + 1] if i + 1 < len(tgt.parent.children) else 0
                if n in ('getNodeValue', 'getData'):
                    return tgt.value
                if n == 'getParentNode':
                    return tgt.parent or 0
                raise Unsupported('node method ' + n)
            if isinstance(tgt, Vec) and tgt.kind == 'nodes':
                if n == 'getLength':
                    return len(tgt.items)
                if n == 'item':
                    return tgt.items[int(m.ev(a[0]))]
            if isinstance(tgt, str) and n in ('length', 'empty', 'c_str'):
                return len(tgt) if n == 'length' else (int(not tgt) if n == 'empty' else tgt)
        if k == 'Call':
            a = c.get('args', [])
            if n == 'getNodeData' and 'DOMServices' in fn:
                nd = m.ev(a[0])
                if isinstance(nd, N) and len(a) == 3:
                    t2 = strip_casts(a[2])
                    m.assign(t2, (m.ev(t2) or '') + nd.sval())
                    return 0
            if n == 'toDouble' and a:
                v = m.ev(a[0])
                if isinstance(v, str):
                    return str_to_num(v)
        if k in ('Call', 'MCall') and n == 'number' and 'XObject::' in fn and c.get('args'):
            v0 = m.ev(c['args'][0])
            if isinstance(v0, str):
                return str_to_num(v0)           # number(string, memory manager): DoubleSupport::toDouble, C02-R16's
            return NotImplemented
        return NotImplemented


def samples():
    t = lambda s: N('text', s)
    e = lambda *ch: N('elem', '', ch)
    return [N('attr', '12'), N('attr', ' 7 '), N('attr', 'x'), t('3'), N('comment', '4'), N('pi', '5'),
            e(t('12')), e(), e(t('1'), N('comment', 'c'), t('5')), e(t('12'), e(t('3'))), e(t(' '), e(t('7')), t(' ')), e(e(t('4')), t('2')), e(t('x'), e(t('1'))),
            e(N('comment', '9')), e(t('1'), N('pi', '2'), t('0'))]


def run_rule(res, facts, tier):
    r = res.rule('C11-R10', 'a node asked for directly as a number is converted through its string-value: XObject::number(context, node) and number(context, node list) interpreted on '
                 'attributes, text, comments and elements whose text is split by a comment, followed by an element, or only inside child elements: the result is number(string-value) '
                 '(XPath 1.0 4.4, 5.1-5.7)', floor=25)
    w = NWorld(facts)
    cands = [a for a in facts.asts('XObject::number', must=False) if a.get('body') is not None and len(a['params']) == 2 and 'XPathExecutionContext' in (a['params'][0].get('ty') or '')]
    by = {}
    for a in cands:
        t = a['params'][1].get('ty') or ''
        by['node' if 'XalanNode' in t else ('list' if 'NodeRefListBase' in t else t)] = a
    if 'node' not in by or 'list' not in by:
        raise AnalysisBroken('XObject::number(context, node) / (context, node list): found %s' % sorted(by))
    for nd in samples():
        for kind in ('node', 'list'):
            arg = nd if kind == 'node' else Vec([nd], 'nodes')
            w.calls = 0
            site = 'number of %s%s' % ('the node-set {%r}' % nd if kind == 'list' else repr(nd), '')
            try:
                m = OMachine(w, {}, None)
                m.fuel = 3000
                got = m.run_body(by[kind], [Obj('ectx', {}), arg], None)
            except Fault as f:
                got = 'FAULT: %s' % f
            except Unsupported as u:
                raise AnalysisBroken('XObject::number outside the interpreted subset (%s): %s' % (site, u))
            want = str_to_num(nd.sval())
            same = isinstance(got, (int, float)) and ((got != got and want != want) or got == want)
            if same:
                r.ok(site, str(got))
            else:
                r.violation('number of a node: %s' % ('element with mixed content' if nd.kind == 'elem' else nd.kind), '%s is %r; the string-value is %r, its number %r' %
                            (site, got, nd.sval(), want), common.file_line(by[kind]))
    # the empty node-set
    w.calls = 0
    try:
        m = OMachine(w, {}, None)
        m.fuel = 3000
        got = m.run_body(by['list'], [Obj('ectx', {}), Vec([], 'nodes')], None)
    except (Fault, Unsupported) as x:
        got = 'ERR %s' % x
    if isinstance(got, float) and got != got:
        r.ok('number of the empty node-set', 'NaN')
    else:
        r.violation('number of the empty node-set', 'is %r, XPath 1.0 4.4: NaN' % (got,), common.file_line(by['list']))
    return r
