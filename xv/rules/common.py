"""shared building blocks for the rule modules"""
import collections
from ..mast import CFG, calls, callee, walk, pp, strip_casts, NS


def short_fq(facts, k):
    f = facts.F.get(k)
    if not f:
        return k
    return facts.sig(k)


def norm_atom(e, br):
    """strip casts and '== true' / '== false' / '!= 0' wrappers; returns (core, effective branch)"""
    while True:
        e = strip_casts(e)
        if e is None:
            return e, br
        if e.get('k') == 'Bin' and e['op'] in ('==', '!='):
            l, r = strip_casts(e['lhs']), strip_casts(e['rhs'])
            for a, b in ((l, r), (r, l)):
                if b is not None and b.get('k') in ('Bool',) or (b is not None and b.get('k') == 'Int' and b.get('cv') == 0 and a is not None and a.get('ty') == 'bool'):
                    truth = bool(b.get('cv'))
                    eff = br if (truth == (e['op'] == '==')) else (not br)
                    e, br = a, eff
                    break
            else:
                return e, br
            continue
        if e.get('k') == 'Un' and e['op'] == '!':
            e, br = e['e'], not br
            continue
        return e, br


def cond_is_call(atom, name, br, want_branch):
    core, eff = norm_atom(atom, br)
    if core is None or core.get('k') not in ('Call', 'MCall'):
        return False
    n = core.get('n') or callee(core).split('::')[-1]
    return n == name and eff == want_branch


def names_in(e):
    s = set()
    for x in walk(e):
        if x['k'] == 'Ref':
            s.add(x['n'])
        elif x['k'] == 'Member':
            s.add(x['m'])
    return s


def assigned_names(stmt):
    """names (locals / members) that a statement may modify directly"""
    out = set()
    if stmt is None:
        return out
    for x in walk(stmt):
        k = x['k']
        tgt = None
        if k == 'Bin' and (x['op'] == '=' or (x['op'].endswith('=') and x['op'] not in ('==', '!=', '<=', '>='))):
            tgt = x['lhs']
        elif k == 'Un' and x['op'] in ('++', '--'):
            tgt = x['e']
        elif k == 'OpCall' and x['op'] in ('=', '+=', '-=', '++', '--') and x['args']:
            tgt = x['args'][0]
        if tgt is not None:
            t = strip_casts(tgt)
            while t is not None and t.get('k') in ('Index',):
                t = strip_casts(t['b'])
            if t is not None:
                if t.get('k') == 'Ref':
                    out.add(t['n'])
                elif t.get('k') == 'Member':
                    out.add(t['m'])
                elif t.get('k') == 'Un' and t['op'] == '*':
                    out |= names_in(t)
        if k == 'Decl':
            for v in x.get('vars', []):
                out.add(v['n'])
    if stmt.get('k') == 'Decl':
        for v in stmt.get('vars', []):
            out.add(v['n'])
    return out


def must_conds(cfg, kill=True):
    """forward must-analysis: for each node id, the set of (atom AST, branch) pairs established on EVERY path
    from the entry (an atom is dropped when a name it mentions is assigned afterwards).
    Atoms are keyed by printed text; returns {node id: list of (atom ast, branch)}"""
    atoms = {}
    TOP = None
    state = {n.id: TOP for n in cfg.nodes}
    state[cfg.entry.id] = frozenset()
    order = cfg.nodes
    preds = cfg.preds()
    # edge facts
    def out_of(n, succ):
        s = state[n.id]
        if s is TOP:
            return TOP
        if n.kind == 'cond' and n.ast is not None:
            key = pp(n.ast)
            atoms.setdefault(key, n.ast)
            add = set()
            if n.cond_true is succ and n.cond_false is not succ:
                add.add((key, True))
            elif n.cond_false is succ and n.cond_true is not succ:
                add.add((key, False))
            # evaluating a condition may itself assign (rare): kill first
            ks = assigned_names(n.ast) if kill else set()
            base = s if not ks else frozenset(x for x in s if not (names_in(atoms[x[0]]) & ks))
            return frozenset(base | add)
        if n.kind == 'stmt' and kill and n.ast is not None:
            ks = assigned_names(n.ast)
            if ks:
                return frozenset(x for x in s if not (names_in(atoms[x[0]]) & ks))
        return s
    changed = True
    it = 0
    while changed and it < 200:
        changed = False
        it += 1
        for n in order:
            if n is cfg.entry:
                continue
            ins = [out_of(p, n) for p in preds.get(n.id, [])]
            ins = [i for i in ins if i is not TOP]
            if not ins:
                continue
            new = frozenset.intersection(*ins) if len(ins) > 1 else ins[0]
            if state[n.id] is TOP or new != state[n.id]:
                state[n.id] = new
                changed = True
    res = {}
    for n in cfg.nodes:
        s = state[n.id]
        res[n.id] = [] if s is TOP else [(atoms[k], b) for k, b in sorted(s)]
    return res


def find_call_nodes(cfg, name):
    """[(cfg node, call ast)] of calls whose unqualified callee name is `name`"""
    out = []
    for n in cfg.nodes:
        if n.ast is None or n.kind not in ('stmt', 'cond'):
            continue
        for c in calls(n.ast):
            if (c.get('n') or callee(c).split('::')[-1]) == name:
                out.append((n, c))
    return out


def file_line(a, node=None):
    f = a['file'].replace('/repo/', '')
    l = (node.get('l') if isinstance(node, dict) else None) or a.get('line')
    return '%s:%s' % (f, l)


def reports_error(facts, stmts, depth=2):
    """do these statements raise an error: a throw, executionContext.problem(..., eError, ...), or a call (up to `depth`
    levels into repo callees) to a routine that does so on its straight-line path"""
    for st in stmts:
        for x in walk(st):
            if x['k'] == 'Throw':
                return True
            if x['k'] in ('Call', 'MCall'):
                n = x.get('n') or callee(x).split('::')[-1]
                if n in ('problem', 'error', 'warn') and any(strip_casts(a) is not None and strip_casts(a).get('k') == 'Ref' and strip_casts(a).get('n') == 'eError' for a in x['args']):
                    return True
                if n in ('error',) and 'XPathProcessorImpl' in (x.get('cls') or ''):
                    return True
                if depth > 0 and x.get('usr'):
                    a = facts.ast(x['usr'])
                    if a is not None and a['file'].startswith('/repo/') and len(str(a['body'])) < 20000:
                        body = a['body']
                        top = body['c'] if body['k'] == 'Compound' else [body]
                        # only statements executed unconditionally
                        straight = [t for t in top if t['k'] not in ('If', 'While', 'For', 'Do', 'Switch')]
                        if reports_error(facts, straight, depth - 1):
                            return True
    return False


from ..build import VERIF as _VERIF
import os as _os
FIXTURE_PREFIX = _os.path.join(_VERIF, 'fixtures') + '/'


def is_fixture(a):
    return a['file'].startswith(FIXTURE_PREFIX)


def fixture_verdict(rule, name, fired_on):
    """fixtures: functions named bad_<rule>_* must be reported, good_<rule>_* must not.  `fired_on`: set of function names the
    rule fired on among fixture functions; all: all fixture function names relevant to this rule."""
    pass


def canon_text(e, a, depth=0):
    """text of an expression in which the names of locals and parameters of function `a` are replaced by what they stand for - a parameter by its position ($0, $1 ...),
    a local by its initialiser (three levels deep) - so that tables of reviewed sites do not depend on how a variable is called"""
    import copy
    params = {p['id']: i for i, p in enumerate(a.get('params', [])) if 'id' in p}
    inits = getattr(canon_text, '_cache', {}).get(id(a))
    if inits is None:
        inits = {}
        for x in walk(a['body']):
            if x.get('k') == 'Decl':
                for v in x.get('vars', []):
                    inits[v['id']] = v.get('init')
        canon_text._cache = {id(a): inits}

    def sub(x, d):
        if isinstance(x, list):
            return [sub(y, d) for y in x]
        if not isinstance(x, dict):
            return x
        if x.get('k') == 'Ref' and x.get('d') == 'param' and x.get('id') in params:
            y = dict(x); y['n'] = '$%d' % params[x['id']]; return y
        if x.get('k') == 'Ref' and x.get('d') == 'local' and x.get('id') in inits:
            ini = inits[x['id']]
            y = dict(x)
            if ini is not None and d < 3:
                y['n'] = '<%s>' % pp(sub(strip_casts(ini), d + 1))[:80]
            else:
                y['n'] = '<local>'
            return y
        return {k: (sub(v, d) if isinstance(v, (dict, list)) else v) for k, v in x.items()}
    return pp(sub(strip_casts(e), depth))
