"""C03-R15 — an iterator is not used after its container may have moved.

The library's own containers (XalanVector and what is built on it: XalanDOMString, the deque's index, the maps' bucket vectors) keep their elements in one block that is
replaced when it grows.  An iterator - a plain pointer - taken before insert / push_back / append / resize / reserve / assign / operator+= points into the old block afterwards.
Per function, on the CFG: an iterator variable (a local initialised or assigned from begin() / end() / insert() / erase() / find of a container expression, or the position
parameter of a container's own insert / erase member) that is read on some path after a growing call on the SAME container, with no re-assignment in between, is reported.
`it = c.insert(it, x)` re-assigns; erase() invalidates only from the erased position on and is not counted; a call through another object is not followed."""
import re
from ..build import AnalysisBroken
from ..mast import walk, calls, callee, strip_casts, pp, CFG
from ..facts import short
from . import common

GROW = {'insert', 'push_back', 'push_front', 'append', 'resize', 'reserve', 'assign', 'operator+=', 'swap'}
ITER_SRC = {'begin', 'end', 'insert', 'erase', 'find', 'find_if', 'lower_bound', 'upper_bound', 'rbegin', 'rend'}
VECTOR_CLS = re.compile(r'(XalanVector|XalanDOMString|std::vector|std::basic_string)\b')
CONT_CLS = re.compile(r'(XalanVector|XalanDOMString|XalanDeque|XalanList|XalanMap|XalanSet|std::vector|std::basic_string|XalanArrayAllocator)\b')


def _outer(cls):
    return re.sub(r'<.*', '', cls or '')


def cont_key(o):
    """identity of a container expression within one function"""
    o = strip_casts(o)
    if not isinstance(o, dict):
        return None
    if o.get('k') == 'This':
        return 'this'
    if o.get('k') == 'Un' and o.get('op') == '*' and (strip_casts(o.get('e')) or {}).get('k') == 'This':
        return 'this'
    if o.get('k') == 'Member' and (o.get('obj') or {}).get('k') == 'This':
        return 'm:' + o['m']
    if o.get('k') == 'Ref' and o.get('d') in ('local', 'param'):
        return '%s:%s' % (o['d'], o.get('id'))
    return None


def iter_source(e):
    """container key if e is an expression that yields an iterator into a container"""
    e = strip_casts(e)
    while isinstance(e, dict) and e.get('k') in ('Ctor',) and len(e.get('args', [])) == 1:
        e = strip_casts(e['args'][0])
    if not isinstance(e, dict):
        return None
    if e.get('k') == 'MCall' and e.get('n') in ITER_SRC and CONT_CLS.search(_outer(e.get('cls'))):
        return cont_key(e.get('obj'))
    if e.get('k') == 'Call' and (e.get('n') or callee(e).split('::')[-1]) in ('find', 'find_if', 'lower_bound', 'upper_bound') and e.get('args'):
        return iter_source(e['args'][0])
    if e.get('k') == 'Bin' and e.get('op') in ('+', '-'):
        return iter_source(e['lhs'])
    return None


def run_rule(res, facts, tier):
    r = res.rule('C03-R15', 'no iterator is read after a call that may move its container: per function, an iterator variable taken from a container of the library (or the position '
                 'parameter of a container\'s own insert / erase) is not used on any path after insert / push_back / append / resize / reserve / assign / += on the same container '
                 'unless it was re-assigned in between', floor=40)
    n = 0
    for k in facts.astidx:
        f = facts.F.get(k)
        if not f or '/src/xalanc/' not in f.get('loc', '') or '/Tests/' in f.get('loc', '') or '/Harness/' in f.get('loc', '') or '/Samples/' in f.get('loc', ''):
            continue
        a = facts.ast(k)
        if a is None or a.get('body') is None:
            continue
        fnname = (a.get('fq') or '').split('::')[-1]
        # iterator variables: {(d, id): container key}
        its = {}
        if VECTOR_CLS.search(_outer(a.get('cls'))) and fnname in ('insert', 'erase') and a['params'] and '*' in (a['params'][0].get('ty') or ''):
            its[('param', a['params'][0].get('id'))] = 'this'
        for x in walk(a['body']):
            if x.get('k') == 'Decl':
                for v in x.get('vars', []):
                    if v.get('init') is not None:
                        ck = iter_source(v['init'])
                        if ck:
                            its[('local', v['id'])] = ck
            elif x.get('k') == 'Bin' and x.get('op') == '=':
                t = strip_casts(x['lhs'])
                if isinstance(t, dict) and t.get('k') == 'Ref' and t.get('d') == 'local':
                    ck = iter_source(x['rhs'])
                    if ck:
                        its.setdefault(('local', t['id']), ck)
        if not its:
            continue
        cfg = None
        for (d, vid), ck in sorted(its.items(), key=str):
            # growing calls on the container
            grows = []
            for c in calls(a['body']):
                nm = c.get('n') or ''
                if c.get('k') == 'MCall' and nm in GROW and cont_key(c.get('obj')) == ck and VECTOR_CLS.search(_outer(c.get('cls'))) and (ck != 'this' or VECTOR_CLS.search(_outer(a.get('cls')))):
                    grows.append(c)
                elif c.get('k') == 'OpCall' and c.get('op') == '+=' and c.get('args') and cont_key(c['args'][0]) == ck:
                    grows.append(c)
            if not grows:
                continue
            n += 1
            if cfg is None:
                cfg = CFG(a)
            name = next((p.get('n') for p in a['params'] if d == 'param' and p.get('id') == vid), None) or next((v.get('n') for x in walk(a['body']) if x.get('k') == 'Decl' for v in x.get('vars', []) if v.get('id') == vid), '?')

            def refs(nd_ast):
                return [y for y in walk(nd_ast) if y.get('k') == 'Ref' and y.get('d') == d and y.get('id') == vid]

            def assigns(nd_ast):
                for y in walk(nd_ast):
                    if y.get('k') == 'Bin' and y.get('op') == '=':
                        t = strip_casts(y['lhs'])
                        if isinstance(t, dict) and t.get('k') == 'Ref' and t.get('d') == d and t.get('id') == vid:
                            return True
                    if y.get('k') == 'Decl' and any(v.get('id') == vid for v in y.get('vars', [])) and d == 'local':
                        return True
                return False
            bad = None
            must = None
            for g in grows:
                gnodes = [nd for nd in cfg.nodes if nd.ast is not None and any(y is g for y in walk(nd.ast))]
                if not gnodes:
                    continue
                # a call that is made only where the room is known to suffice moves nothing (if (m_allocation > m_size) insert(pos, 1, x))
                if must is None:
                    must = common.must_conds(cfg)
                if all(any(re.search(r'm_allocation|capacity\(\)', pp(at)) for at, br in must.get(nd.id, [])) for nd in gnodes):
                    continue
                # the statement of the growing call itself re-assigns the iterator (it = c.insert(it, x)): fine
                if all(assigns(nd.ast) for nd in gnodes):
                    continue
                reach = cfg.reachable_avoiding(gnodes, lambda nd: nd.ast is not None and assigns(nd.ast))
                for nd in cfg.nodes:
                    if nd.id in reach and nd.ast is not None and refs(nd.ast):
                        bad = (g, nd)
                        break
                if bad:
                    break
            site = '%s: iterator %s' % (short(facts.sig(k)), name)
            if bad:
                g, nd = bad
                r.violation('%s: iterator %s is read after the container may have moved' % (short(a.get('fq') or ''), name),
                            '%s is an iterator into %s; after %s (which may replace the storage) it is read again (%s) without having been re-assigned: a pointer into freed memory when '
                            'the block was full' % (name, 'the object itself' if ck == 'this' else ck.split(':', 1)[1] if ck.startswith('m:') else 'a container', pp(g)[:50], pp(nd.ast)[:50]),
                            common.file_line(a, g))
            else:
                r.ok(site, 'not read after a growing call without re-assignment')
    if n < 10:
        raise AnalysisBroken('C03-R15: only %d (iterator, growing call) pairs found' % n)
    return r
