"""C01-R5 — which instruction changes which part of the dynamic context (variable scope, current node and node list, text-only content).

Each row is one sentence of XSLT 1.0: the instruction class must establish the change (push, with the stated argument) in the stated member function on
every normal path, and undo it (pop) in the stated one; the three stacks that decide which variable bindings are visible may be touched by the reviewed
classes only.  What the bindings evaluate to is not decided here."""
import collections, re
from ..build import AnalysisBroken
from ..mast import calls, pp, strip_casts, CFG
from ..facts import short
from . import common

# (class, stack): (push functions, required text in the pushed argument or None, pop functions, sentence)
ROWS = {
    ('ElemAttributeSet', 'ContextMarker'): (('startElement',), None, ('endElement',),
        'XSLT 1.0 7.1.4: only top-level variables and parameters are visible within an attribute set'),
    ('ElemApplyTemplates', 'ContextMarker'): (('getFirstChildElemToExecute', 'getNextChildElemToExecute'), None, ('endElement',),
        'XSLT 1.0 11.5: the local bindings of the instruction that applies templates are not visible in the templates it instantiates'),
    ('ElemCallTemplate', 'ContextMarker'): (('getFirstChildElemToExecute', 'getNextChildElemToExecute'), None, ('endElement',),
        'XSLT 1.0 11.5 / 6: the local bindings of the caller are not visible in the called template'),
    ('ElemApplyImport', 'ContextMarker'): (('startElement',), None, ('endElement',),
        'XSLT 1.0 11.5 / 5.6: the local bindings of the current rule are not visible in the imported rule'),
    ('ElemTemplateElement', 'ElementFrame'): (('beginExecuteChildren',), 'this', ('endExecuteChildren',),
        'XSLT 1.0 11.5: a binding is visible for the following siblings and their descendants only - it ends with its parent element'),
    ('ElemForEach', 'ContextNodeList'): (('startElement',), None, ('endElement',), 'XSLT 1.0 8: for-each makes the selected nodes the current node list'),
    ('ElemForEach', 'CurrentNode'): (('startElement', 'getNextChildElemToExecute'), None, ('getNextChildElemToExecute',), 'XSLT 1.0 8: each selected node in turn is the current node'),
    ('ElemApplyTemplates', 'ContextNodeList'): (('getFirstChildElemToExecute', 'getNextChildElemToExecute'), None, ('endElement',),
        'XSLT 1.0 5.4: the selected nodes are the current node list of the templates instantiated'),
    ('ElemApplyTemplates', 'CurrentNode'): (('findNextTemplateToExecute',), None, ('findNextTemplateToExecute', 'getNextChildElemToExecute'), 'XSLT 1.0 5.4: each selected node in turn is the current node'),
    ('ElemAttribute', 'CopyTextNodesOnly'): (('startElement',), '1', ('endElement',), 'XSLT 1.0 7.1.3: the content of xsl:attribute yields text nodes only'),
    ('ElemComment', 'CopyTextNodesOnly'): (('startElement',), '1', ('endElement',), 'XSLT 1.0 7.4: the content of xsl:comment yields text nodes only'),
    ('ElemPI', 'CopyTextNodesOnly'): (('startElement',), '1', ('endElement',), 'XSLT 1.0 7.3: the content of xsl:processing-instruction yields text nodes only'),
}
SCOPE_STACKS = {'CurrentStackFrameIndex', 'ContextMarker', 'ElementFrame'}
# other users of the three scope stacks, one reason each
SCOPE_OK = {
    ('ElemTemplateElement', 'ContextMarker'): 'execution of an element with its own parameters (extension elements / fallback): marker pushed in getFirstChildElemToExecute and popped in endExecuteChildren',
}
# rows whose member functions have no conditional exits today: the push / pop must lie on every path (xsl:attribute skips its content for an invalid name and
# xsl:for-each for an empty selection, each with a flag that endElement reads: those two are checked for presence and argument only)
MUST_ON_EVERY_PATH = {('ElemAttributeSet', 'ContextMarker'), ('ElemApplyImport', 'ContextMarker'), ('ElemComment', 'CopyTextNodesOnly'), ('ElemPI', 'CopyTextNodesOnly')}


def run_rule(res, facts, tier):
    r = res.rule('C01-R5', 'dynamic-context protocol of the instructions: the reviewed (instruction class, context stack) pairs - variable scope for attribute sets, called / applied / imported '
                 'templates and element ends; current node and node list for for-each and apply-templates; text-only content for attribute, comment and processing-instruction - are '
                 'established with the stated argument and undone in the stated member functions; no other instruction touches the scope stacks', floor=12)
    tab = collections.defaultdict(lambda: {'push': [], 'pop': []})
    bodies = {}
    for a in facts.all_asts(r'/XSLT/Elem[A-Za-z]*\.(cpp|hpp)'):
        if a.get('body') is None:
            continue
        fn = facts.F.get(a['usr'])
        if not fn:
            continue
        cls = (fn.get('cls') or '').split('::')[-1]
        name = fn['name'].split('::')[-1]
        bodies.setdefault((cls, name), []).append(a)
        for c in calls(a['body']):
            n = c.get('n') or ''
            m = re.match(r'^(push|pop)([A-Z][A-Za-z]*)$', n)
            if c['k'] == 'MCall' and m and 'ExecutionContext' in (c.get('cls') or ''):
                tab[(cls, m.group(2))][m.group(1)].append((name, ', '.join(pp(x) for x in c.get('args', [])), a, c))
    if len(tab) < 20:
        raise AnalysisBroken('only %d (class, stack) pairs found in XSLT/Elem*.cpp' % len(tab))
    for (cls, stack), (pfns, argtext, qfns, why) in sorted(ROWS.items()):
        site = '%s: %s' % (cls, stack)
        t = tab.get((cls, stack), {'push': [], 'pop': []})
        probs = []
        for fnm in pfns:
            hits = [x for x in t['push'] if x[0] == fnm]
            if not hits:
                probs.append('%s::%s no longer calls push%s' % (cls, fnm, stack))
            elif argtext is not None and not all(argtext in x[1] for x in hits):
                probs.append('%s::%s pushes %s, expected an argument with %s' % (cls, fnm, [x[1] for x in hits], argtext))
        for fnm in qfns:
            if not [x for x in t['pop'] if x[0] == fnm]:
                probs.append('%s::%s no longer calls pop%s' % (cls, fnm, stack))
        if not probs and (cls, stack) in MUST_ON_EVERY_PATH:
            for kind, fns in (('push', pfns), ('pop', qfns)):
                for fnm in fns:
                    for a in bodies.get((cls, fnm), []):
                        cfg = CFG(a)
                        targets = {n.id for n, c in common.find_call_nodes(cfg, kind + stack)}
                        # a normal return reachable without passing a target
                        seen = set(); st = [cfg.entry]; miss = False
                        while st:
                            n = st.pop()
                            if n.id in seen or n.id in targets:
                                continue
                            seen.add(n.id)
                            if n is cfg.exit:
                                miss = True; break
                            st.extend(n.succ)
                        if miss and not common.reports_error(facts, [a['body']], depth=1):
                            probs.append('%s::%s has a path to its end without %s%s' % (cls, fnm, kind, stack))
        if probs:
            r.violation(site, '%s (%s)' % ('; '.join(probs), why), common.file_line((t['push'] + t['pop'])[0][2]) if (t['push'] + t['pop']) else 'src/xalanc/XSLT/%s.cpp' % cls)
        else:
            r.ok(site, why)
    for (cls, stack), t in sorted(tab.items()):
        if stack in SCOPE_STACKS and (cls, stack) not in ROWS:
            site = '%s: %s' % (cls, stack)
            if (cls, stack) in SCOPE_OK:
                r.ok(site, 'reviewed: ' + SCOPE_OK[(cls, stack)])
            else:
                x = (t['push'] + t['pop'])[0]
                r.violation(site, '%s::%s changes which variable bindings are visible (%s%s) and is not one of the reviewed scope-establishing instructions'
                            % (cls, x[0], 'push' if t['push'] else 'pop', stack), common.file_line(x[2], x[3]))
    return r


def r6_params(res, facts):
    """A value passed with xsl:with-param is bound by the xsl:param that asks for it, in that template's element frame (so the binding ends with the template);
    the entries xsl:apply-templates pushed once for all selected nodes are never switched to 'visible' in place."""
    r = res.rule('C01-R6', 'parameter passing: ElemParam::startElement binds a passed value with pushVariable in the frame of its parent element on the path where a value was '
                 'passed; no function switches a pushed parameter entry to the visible state in place (StackEntry::activate has no caller), so a template that does not '
                 'declare the parameter never sees it', floor=3)
    a = facts.asts('ElemParam::startElement', must=False)
    a = [x for x in a if x.get('body') is not None]
    if len(a) != 1:
        raise AnalysisBroken('ElemParam::startElement: %d bodies' % len(a))
    a = a[0]
    cfg = CFG(a)
    mc = common.must_conds(cfg)
    pv = common.find_call_nodes(cfg, 'pushVariable')
    ok = False
    for node, call in pv:
        args = [pp(x) for x in call.get('args', [])]
        conds = [(pp(common.norm_atom(atom, br)[0]), common.norm_atom(atom, br)[1]) for atom, br in mc.get(node.id, [])]
        if len(args) == 3 and 'm_qname' in args[0] and 'getParentNodeElem' in args[2] and any('null()' in t and eff is False for t, eff in conds):
            ok = True
    if ok:
        r.ok('ElemParam::startElement: passed value', 'pushVariable(*m_qname, value, getParentNodeElem()) where getParamVariable() was not null')
    else:
        r.violation('ElemParam::startElement: passed value', 'on the path where a value was passed the xsl:param does not bind it in its own frame: the value is visible only if the '
                    'pushed entry itself is made visible, and then it stays visible for the templates of the following nodes', common.file_line(a))
    # the default path goes through ElemVariable::startElement
    if any((c.get('n') or '') == 'startElement' and 'ElemVariable' in (c.get('fn') or '') for c in calls(a['body'])):
        r.ok('ElemParam::startElement: no value passed', 'ElemVariable::startElement evaluates the default')
    else:
        r.violation('ElemParam::startElement: no value passed', 'the default value is no longer evaluated through ElemVariable::startElement', common.file_line(a))
    act = [k for k, v in facts.F.items() if v['name'].endswith('VariablesStack::StackEntry::activate')]
    deact = [k for k, v in facts.F.items() if v['name'].endswith('VariablesStack::StackEntry::deactivate')]
    if not act or not deact:
        raise AnalysisBroken('VariablesStack::StackEntry::activate / deactivate not found')
    callers_d = [c for c in facts.calls if c['to'] in deact]
    if not callers_d:
        raise AnalysisBroken('no caller of StackEntry::deactivate is visible (VariablesStack::resetParams calls it): the call graph does not see calls on stack entries')
    callers_a = [c for c in facts.calls if c['to'] in act]
    if callers_a:
        for c in callers_a:
            r.violation('%s -> StackEntry::activate' % short(facts.sig(c['from'])), 'a pushed parameter entry is made visible in place: it stays visible after the template that declared '
                        'the parameter has ended (xsl:apply-templates pushes its parameters once for all selected nodes)', c['loc'].replace('/repo/', ''))
    else:
        r.ok('StackEntry::activate has no caller', 'positive control: %d caller(s) of deactivate seen' % len(callers_d))
    return r


def r14_attribute_needs_element(res, facts):
    """xsl:attribute (XSLT 1.0 7.1.3) may add to the element being built only while that element is still open for attributes.  Whatever ElemAttribute::startElement puts into the
    pending attribute list when no element is pending - the attribute or the namespace declaration it generates for it - stays there and comes out on the NEXT element."""
    from ..mast import CFG, calls, callee
    r = res.rule('C01-R14', 'xsl:attribute adds nothing unless an element is pending: in ElemAttribute::startElement every addResultAttribute (generated namespace declarations) and every '
                 'pushProcessCurrentAttribute(true) is dominated by isElementPending() == true', floor=3)
    cands = [a for a in facts.asts('ElemAttribute::startElement', must=False) if a.get('body') is not None]
    if len(cands) != 1:
        raise AnalysisBroken('ElemAttribute::startElement: %d bodies' % len(cands))
    a = cands[0]
    cfg = CFG(a)
    must = common.must_conds(cfg)
    n = 0
    for nd in cfg.nodes:
        if nd.ast is None or nd.kind not in ('stmt', 'cond'):
            continue
        for c in calls(nd.ast):
            nm = c.get('n') or callee(c).split('::')[-1]
            adds = nm == 'addResultAttribute' or (nm == 'pushProcessCurrentAttribute' and c.get('args') and (strip_casts(c['args'][0]) or {}).get('cv') == 1)
            if not adds:
                continue
            n += 1
            site = 'ElemAttribute::startElement: %s' % (nm if nm == 'addResultAttribute' else 'the attribute is to be processed')
            if any(common.cond_is_call(at, 'isElementPending', br, True) for at, br in must.get(nd.id, [])):
                r.ok(site, 'only while an element is pending')
            else:
                r.violation(site, 'reached on a path that has not established isElementPending() == true: what is added then stays in the pending attribute list and comes out on the next '
                            'element started', common.file_line(a, c))
    if n == 0:
        raise AnalysisBroken('ElemAttribute::startElement adds nothing (addResultAttribute / pushProcessCurrentAttribute(true) expected)')
    return r


# ----------------------------------------------------------------------------------------------- C03-R14: what endElement pops, startElement has pushed
def _minmax(cfg, name):
    """(fewest, most) calls of the member `name` on a path from the entry to the normal exit (back edges ignored: none of these functions pushes in a loop)"""
    import sys
    cnt = {}
    for n in cfg.nodes:
        cnt[n.id] = sum(1 for c in calls(n.ast) if c.get('k') == 'MCall' and c.get('n') == name) if n.ast is not None else 0
    memo, onstack = {}, set()
    sys.setrecursionlimit(max(10000, sys.getrecursionlimit()))

    def go(n):
        if n is cfg.exit:
            return (0, 0)
        if n.id in memo:
            return memo[n.id]
        if n.id in onstack:
            return None
        onstack.add(n.id)
        best = None
        for s in n.succ:
            x = go(s)
            if x is not None:
                best = x if best is None else (min(best[0], x[0]), max(best[1], x[1]))
        onstack.discard(n.id)
        memo[n.id] = None if best is None else (best[0] + cnt[n.id], best[1] + cnt[n.id])
        return memo[n.id]
    return go(cfg.entry)


def r14_balance(res, facts):
    """The iterative engine calls startElement, runs the children, calls endElement - for every instruction instance, on every path on which startElement returns.  Where
    one of the two touches a stack of the execution context unconditionally (the same number of pushes / pops on every path to its normal exit), the other must do the
    same number on every path: an endElement that always pops after a startElement that skipped the push on one path pops an entry of the enclosing instruction or an
    empty stack (undefined behaviour in the release build, where the assertion is compiled out)."""
    r = res.rule('C03-R14', 'instruction by instruction and stack by stack: when endElement pops a stack of the execution context the same number of times on every path, '
                 'startElement pushes it that many times on every path to a normal return, and the other way round (paths that throw are exempt); pairs where both sides are '
                 'conditional (coupled by a flag: xsl:attribute, xsl:for-each ...) are not decided here', floor=9)
    tab = collections.defaultdict(dict)
    for a in facts.all_asts(r'/XSLT/Elem[A-Za-z]*\.(cpp|hpp)'):
        if a.get('body') is None:
            continue
        fn = facts.F.get(a['usr'])
        if not fn:
            continue
        cls = (fn.get('cls') or '').split('::')[-1]
        name = fn['name'].split('::')[-1]
        if name not in ('startElement', 'endElement'):
            continue
        stacks = set()
        for c in calls(a['body']):
            m = re.match(r'^(push|pop)([A-Z][A-Za-z]*)$', c.get('n') or '')
            if c['k'] == 'MCall' and m and 'ExecutionContext' in (c.get('cls') or ''):
                stacks.add(m.group(2))
        if not stacks:
            continue
        cfg = CFG(a)
        for s in stacks:
            tab[(cls, s)][name] = (_minmax(cfg, 'push' + s), _minmax(cfg, 'pop' + s), a)
    n = 0
    for (cls, stack), d in sorted(tab.items()):
        if 'startElement' not in d or 'endElement' not in d:
            continue
        spush, spop, sa = d['startElement']
        epush, epop, ea = d['endElement']
        if spush is None or epop is None:
            continue
        net_start = (spush[0] - (spop or (0, 0))[1], spush[1] - (spop or (0, 0))[0])
        net_end = (epop[0] - (epush or (0, 0))[1], epop[1] - (epush or (0, 0))[0])
        site = '%s: %s' % (cls, stack)
        s_fixed, e_fixed = net_start[0] == net_start[1], net_end[0] == net_end[1]
        if not s_fixed and not e_fixed:
            continue
        n += 1
        if s_fixed and e_fixed and net_start[0] == net_end[0]:
            r.ok(site, 'startElement pushes %d, endElement pops %d, on every path' % (net_start[0], net_end[0]))
        elif e_fixed:
            r.violation(site, '%s::endElement pops %s %d time(s) on every path, %s::startElement pushes it between %d and %d times depending on the path: on the path with fewer pushes '
                        'endElement pops an entry that belongs to an enclosing instruction, or an empty stack' % (cls, stack, net_end[0], cls, net_start[0], net_start[1]), common.file_line(sa))
        else:
            r.violation(site, '%s::startElement pushes %s %d time(s) on every path, %s::endElement pops it between %d and %d times depending on the path: entries pile up on the stack' %
                        (cls, stack, net_start[0], cls, net_end[0], net_end[1]), common.file_line(ea))
    if n < 9:
        raise AnalysisBroken('C03-R14: only %d (instruction, stack) pairs with an unconditional side found (11 confirmed by hand)' % n)
    return r


def r19_fragment_not_text_only(res, facts):
    """xsl:comment, xsl:processing-instruction and xsl:attribute switch the context to 'text nodes only' for their content (C01-R5).  A result tree fragment built inside such
    content - the body of an xsl:variable / xsl:param / xsl:with-param - is a tree of its own: the function that starts a fragment switches the restriction off (on every
    path, with the argument false) and the one that ends it switches it back (XSLT 1.0 11.2: the fragment is the result of instantiating the content; 7.3 / 7.4 / 7.1.3 restrict
    what the INSTRUCTION's own content yields)."""
    r = res.rule('C01-R19', 'a result tree fragment is not subject to the text-nodes-only restriction of an enclosing xsl:comment / xsl:processing-instruction / xsl:attribute: '
                 'beginCreateXResultTreeFrag pushes CopyTextNodesOnly(false) once on every path, endCreateXResultTreeFrag pops it once on every path', floor=2)
    for name, call, want_arg in (('beginCreateXResultTreeFrag', 'pushCopyTextNodesOnly', 0), ('endCreateXResultTreeFrag', 'popCopyTextNodesOnly', None)):
        bodies = [a for a in facts.asts('StylesheetExecutionContextDefault::' + name, must=False) if a.get('body') is not None]
        if len(bodies) != 1:
            raise AnalysisBroken('StylesheetExecutionContextDefault::%s: %d bodies' % (name, len(bodies)))
        a = bodies[0]
        mm = _minmax(CFG(a), call)
        site = 'StylesheetExecutionContextDefault::%s' % name
        args_ok = want_arg is None or all((strip_casts(c['args'][0]) or {}).get('cv') == want_arg for c in calls(a['body']) if c.get('k') == 'MCall' and c.get('n') == call and c.get('args'))
        if mm == (1, 1) and args_ok:
            r.ok(site, '%s%s once on every path' % (call, '(false)' if want_arg == 0 else '()'))
        else:
            r.violation('%s: the text-only restriction of the enclosing instruction' % site,
                        '%s is called between %s and %s times%s: a variable inside xsl:comment / xsl:processing-instruction / xsl:attribute builds its fragment under "text nodes only" '
                        '(elements copied into it are dropped)%s' % (call, mm[0] if mm else '?', mm[1] if mm else '?', '' if args_ok else ', not with the argument false',
                                                                     '' if name.startswith('begin') else ', or the flag stack is left unbalanced'), common.file_line(a))
    return r
