"""C02 — XPath expressions evaluate to the Recommendation's value.  Structural clauses R1..R5 (DESIGN.md §3)."""
import collections, functools
from ..build import AnalysisBroken
from ..mast import walk, calls, callee, strip_casts, pp, Evaluator, Unsupported
from ..facts import short
from . import common, xpathops, tables

AXES = {'ancestor': 'eFROM_ANCESTORS', 'ancestor-or-self': 'eFROM_ANCESTORS_OR_SELF', 'attribute': 'eFROM_ATTRIBUTES', 'child': 'eFROM_CHILDREN',
        'descendant': 'eFROM_DESCENDANTS', 'descendant-or-self': 'eFROM_DESCENDANTS_OR_SELF', 'following': 'eFROM_FOLLOWING',
        'following-sibling': 'eFROM_FOLLOWING_SIBLINGS', 'namespace': 'eFROM_NAMESPACE', 'parent': 'eFROM_PARENT', 'preceding': 'eFROM_PRECEDING',
        'preceding-sibling': 'eFROM_PRECEDING_SIBLINGS', 'self': 'eFROM_SELF'}
NODETYPES = {'comment': 'eNODETYPE_COMMENT', 'text': 'eNODETYPE_TEXT', 'processing-instruction': 'eNODETYPE_PI', 'node': 'eNODETYPE_NODE'}
CORE_FUNCTIONS = ['last', 'position', 'count', 'id', 'local-name', 'namespace-uri', 'name', 'string', 'concat', 'starts-with', 'contains', 'substring-before',
                  'substring-after', 'substring', 'string-length', 'normalize-space', 'translate', 'boolean', 'not', 'true', 'false', 'lang', 'number', 'sum',
                  'floor', 'ceiling', 'round']
XSLT_FUNCTIONS = ['document', 'key', 'format-number', 'current', 'unparsed-entity-uri', 'generate-id', 'system-property', 'element-available', 'function-available']


def squash(s):
    return s.replace('-', '').replace('_', '').lower()


def r1_tables(res, facts):
    r = res.rule('C02-R1', 'XPath keyword tables are strictly sorted under the comparator their binary search uses, sizes match, and contain exactly the '
                 'XPath 1.0 axes / node types; every core-library function name is inlined under the op code of its own name or installed with the Function class of its own name', floor=13 + 4 + 27 + 19)
    n_inst = tables.check_docompare_shape(facts)
    cmp_search = tables.comparator_of(facts, 'XPathProcessorImpl::searchTable', {'compare', 'compareIgnoreCaseASCII'})
    cmp_fidx = tables.comparator_of(facts, 'XPathFunctionTable::getFunctionIndex', {'compare', 'compareIgnoreCaseASCII'})
    r.note('doCompare shape verified on %d instantiations; searchTable uses %s, getFunctionIndex uses %s' % (n_inst, cmp_search, cmp_fidx))

    def sorted_check(tname, rows, comparator):
        tr = tables.TRANSFORMS[comparator]
        for i in range(1, len(rows)):
            a, b = rows[i - 1][0], rows[i][0]
            site = '%s[%d] "%s" < [%d] "%s"' % (tname, i - 1, a, i, b)
            if tables.xalan_compare(a, b, tr) < 0:
                r.ok(site)
            else:
                r.violation('%s order at "%s"' % (tname, b), 'entry "%s" is not greater than its predecessor "%s" under %s (length first, then code unit): the binary search cannot find it' % (b, a, comparator), facts.table(tname)['loc'].replace('/repo/', ''))

    def decode(tname):
        t = facts.table(tname)
        rows = []
        for row in t['val']:
            s = tables.as_string(facts, row[0])
            if s is None:
                raise AnalysisBroken('%s: cannot decode string cell %r' % (tname, row[0]))
            rows.append((s, row[1], tables.cell_name(row[0])))
        return t, rows

    def size_check(tname, nrows):
        sz = facts.table(tname + 'Size')['val']
        if sz == nrows:
            r.ok('%sSize == %d' % (tname, nrows))
        else:
            r.violation(tname + 'Size', 'size constant %s but the table has %d rows' % (sz, nrows), facts.table(tname)['loc'].replace('/repo/', ''))

    # axis table
    t, rows = decode('XPathProcessorImpl::s_axisTable')
    sorted_check('XPathProcessorImpl::s_axisTable', rows, cmp_search)
    size_check('XPathProcessorImpl::s_axisTable', len(rows))
    got = {s: (tables.enum_of(c) or '').split('::')[-1] for s, c, _ in rows}
    for name, code in AXES.items():
        site = 'axis "%s"' % name
        if got.get(name) == code:
            r.ok(site, code)
        else:
            r.violation(site, 'axis name "%s" maps to %s, XPath 1.0 §2.2 requires %s' % (name, got.get(name), code), t['loc'].replace('/repo/', ''))
    for name in got:
        if name not in AXES:
            r.violation('axis "%s"' % name, 'axis table accepts "%s", which is not an XPath 1.0 axis' % name, t['loc'].replace('/repo/', ''))
    # node type table
    t, rows = decode('XPathProcessorImpl::s_nodeTypeTable')
    sorted_check('XPathProcessorImpl::s_nodeTypeTable', rows, cmp_search)
    size_check('XPathProcessorImpl::s_nodeTypeTable', len(rows))
    got = {s: (tables.enum_of(c) or '').split('::')[-1] for s, c, _ in rows}
    for name, code in NODETYPES.items():
        site = 'node type "%s"' % name
        if got.get(name) == code:
            r.ok(site, code)
        else:
            r.violation(site, 'node type "%s" maps to %s, XPath 1.0 [38] requires %s' % (name, got.get(name), code), t['loc'].replace('/repo/', ''))
    for name in got:
        if name not in NODETYPES:
            r.violation('node type "%s"' % name, 'node-type table accepts "%s(": "%s()" is parsed as a node test although it is not an XPath 1.0 NodeType' % (name, name), t['loc'].replace('/repo/', ''))
    # inlined function table
    t, rows = decode('XPathProcessorImpl::s_functionTable')
    sorted_check('XPathProcessorImpl::s_functionTable', rows, cmp_search)
    size_check('XPathProcessorImpl::s_functionTable', len(rows))
    inlined = {}
    for s, c, _ in rows:
        code = (tables.enum_of(c) or '').split('::')[-1]
        site = 'inlined "%s"' % s
        if code.startswith('eNODETYPE_'):
            if NODETYPES.get(s) == code:
                r.ok(site, code)
            else:
                r.violation(site, '"%s" maps to %s' % (s, code), t['loc'].replace('/repo/', ''))
            continue
        inlined[s] = code
        base = code.replace('eOP_FUNCTION_', '')
        if base.endswith('_0'):
            base = base[:-2]
        if squash(base) == squash(s):
            r.ok(site, code)
        else:
            r.violation(site, 'function name "%s" is compiled to op code %s (a different function)' % (s, code), t['loc'].replace('/repo/', ''))
    # names table of the installable functions
    t = facts.table('XPathFunctionTable::s_functionNames')
    rows = []
    for row in t['val']:
        s = tables.as_string(facts, row[0])
        rows.append((s, row[1], tables.cell_name(row[0])))
        if row[1] != len(s):
            r.violation('s_functionNames "%s" size' % s, 'm_size %s != length %d' % (row[1], len(s)), t['loc'].replace('/repo/', ''))
    sorted_check('XPathFunctionTable::s_functionNames', rows, cmp_fidx)
    names = {s for s, _, _ in rows}
    # installations: InstallFunction(name, FunctionXxx()) in CreateTable and XSLTEngineImpl::installFunctions
    installed = {}
    for q in ('XPathFunctionTable::CreateTable', 'XSLTEngineImpl::installFunctions'):
        for a in facts.asts(q):
            for c in calls(a['body']):
                n = c.get('n') or ''
                if n in ('InstallFunction', 'installFunction') and len(c['args']) >= 2:
                    nm = strip_casts(c['args'][0])
                    s = None
                    if nm is not None and nm.get('q'):
                        s = tables.as_string(facts, {'ref': nm['q']})
                    cls = short((strip_casts(c['args'][1]) or {}).get('ty') or c['args'][1].get('ty', '')).replace('const ', '').replace(' &', '')
                    if s is None:
                        raise AnalysisBroken('cannot resolve installed function name in ' + q)
                    if cls == 'FunctionNotImplemented' and s in installed:
                        continue
                    installed[s] = (cls, q)
    for fn in CORE_FUNCTIONS + XSLT_FUNCTIONS:
        site = 'function "%s"' % fn
        if fn in inlined:
            r.ok(site, 'inlined as ' + inlined[fn])
            continue
        if fn not in names:
            r.violation(site, 'not in XPathFunctionTable::s_functionNames and not inlined: the name is unknown to the compiler', t['loc'].replace('/repo/', ''))
            continue
        cls, where = installed.get(fn, (None, None))
        if cls is None or cls == 'FunctionNotImplemented':
            r.violation(site, 'no implementation installed (only %s)' % cls, t['loc'].replace('/repo/', ''))
        elif squash(cls.replace('Function', '', 1)) != squash(fn):
            r.violation(site, 'installed with class %s (a different function) in %s' % (cls, where), t['loc'].replace('/repo/', ''))
        else:
            r.ok(site, 'installed as %s in %s' % (cls, where))
    return r


STRUCTURAL_OPS = {'eOP_XPATH': 'heads a compiled expression; execute() skips it', 'eOP_MATCHPATTERN': 'heads a compiled pattern', 'eOP_LOCATIONPATHPATTERN': 'heads one pattern alternative',
                  'eOP_PREDICATE': 'read by predicates()', 'eOP_PREDICATE_WITH_POSITION': 'read by predicates()'}


def r2_producers(res, facts):
    r = res.rule('C02-R2', 'every op code the expression compiler can emit (reachable emitters only) has a case in every interpreter switch of its position class '
                 '(expression heads: six executeMore; axes: step; node tests: NodeTester), not the error default', floor=60)
    P = xpathops.Producers(facts)
    unresolved = [c for c in P.by_code if c.startswith('?') or c.startswith('#')]
    for u in unresolved:
        k, l, n = P.by_code[u][0]
        r.violation('emitter %s in %s' % (n, short(facts.name[k])), 'op-code argument cannot be resolved to constants: %s' % u, '%s:%s' % (facts.loc(k).split(':')[0], l))
    exprs = xpathops.opcode_switches(facts, 'XPath::executeMore')
    stepc = xpathops.opcode_switches(facts, 'XPath::step')
    testers = xpathops.opcode_switches(facts, 'XPath::NodeTester::NodeTester')
    # every class XPath member that mentions the code (for structural op codes)
    mentioned = set()
    for k in facts.astidx:
        f = facts.F.get(k)
        if f and f.get('clsq', '').startswith('xalanc_1_12::XPath') and not f.get('clsq', '').startswith('xalanc_1_12::XPathProcessorImpl'):
            for x in walk(facts.ast(k)['body']):
                if x['k'] == 'Ref' and x.get('d') == 'enum' and 'XPathExpression::e' in x.get('q', ''):
                    mentioned.add(short(x['q']))
    pattern_fns = {'LocationPathPattern', 'IdKeyPattern', 'RelativePathPattern', 'StepPattern', 'AbbreviatedNodeTestStep', 'initMatchPattern', 'Pattern'}
    for code in sorted(P.by_code):
        if code in unresolved:
            continue
        fam = xpathops.family(code)
        base = code.split('::')[-1]
        em = sorted({short(facts.name[k]).split('::')[-1] for k, l, n in P.by_code[code]})
        only_pattern = set(em) <= pattern_fns
        if fam is None:
            raise AnalysisBroken('emitted op code %s belongs to no known family' % code)
        if fam == 'MARK':
            continue
        if fam == 'OP':
            if base in STRUCTURAL_OPS:
                if code in mentioned:
                    r.ok('structural %s' % base, STRUCTURAL_OPS[base])
                else:
                    r.violation('structural %s' % base, 'emitted by %s but no XPath member refers to it' % em, None)
                continue
            for a, conss in exprs:
                tag = short(a['params'][3]['ty']) if len(a['params']) > 3 else 'XObjectPtr'
                site = '%s in executeMore(%s)' % (base, tag)
                cons = conss[0]
                if code in cons.labels:
                    r.ok(site)
                elif cons.default is not None and cons.default_is_error() is False:
                    r.ok(site, 'handled by a non-error default')
                else:
                    r.violation(site, 'emitted by %s, no case: evaluation ends in unknownOpCodeError' % em, common.file_line(a))
        elif fam == 'STEP':
            if base.startswith('eMATCH_') or only_pattern:
                continue   # pattern steps: C09-R1
            for a, conss in stepc:
                cons = conss[0]
                site = '%s in step()' % base
                if code in cons.labels:
                    r.ok(site)
                elif cons.default is not None and cons.default_is_error() is False:
                    r.ok(site, 'non-error default')
                else:
                    r.violation(site, 'axis code emitted by %s has no case in XPath::step' % em, common.file_line(a))
        elif fam == 'NODETEST':
            for a, conss in testers:
                cons = conss[0]
                site = '%s in NodeTester' % base
                if code in cons.labels:
                    r.ok(site)
                elif cons.default is not None and cons.default_is_error() is False:
                    r.ok(site, 'non-error default (matches nothing)')
                else:
                    r.violation(site, 'node-test code emitted by %s has no case in NodeTester' % em, common.file_line(a))
    r.note('%d reachable parser functions, %d emission sites, %d distinct op codes' % (len(P.parser_fns), len(P.sites), len(P.by_code)))
    return r


CMP_FUNCS = {'equals': 'eq', 'notEquals': 'ne', 'lessThan': 'lt', 'lessThanOrEquals': 'lte', 'greaterThan': 'gt', 'greaterThanOrEquals': 'gte'}
MIRROR = {'lt': 'gt', 'gt': 'lt', 'lte': 'gte', 'gte': 'lte', 'eq': 'eq', 'ne': 'ne'}
NS_HELPER = {'equalNodeSet': 'eq', 'notEqualNodeSet': 'ne', 'lessThanNodeSet': 'lt', 'lessThanOrEqualNodeSet': 'lte', 'greaterThanNodeSet': 'gt', 'greaterThanOrEqualNodeSet': 'gte'}
DS_FN = {'equal': 'eq', 'notEqual': 'ne', 'lessThan': 'lt', 'lessThanOrEqual': 'lte', 'greaterThan': 'gt', 'greaterThanOrEqual': 'gte'}
CPP_OP = {'==': 'eq', '!=': 'ne', '<': 'lt', '<=': 'lte', '>': 'gt', '>=': 'gte'}
STR_FUNCTOR = {'equalsDOMString': 'eq', 'notEqualsDOMString': 'ne', 'lessThanDOMString': 'lt', 'lessThanOrEqualDOMString': 'lte', 'greaterThanDOMString': 'gt', 'greaterThanOrEqualDOMString': 'gte'}
NUM_FUNCTOR = {'equalFunction': 'eq', 'notEqualFunction': 'ne', 'lessThanFunction': 'lt', 'lessThanOrEqualFunction': 'lte', 'greaterThanFunction': 'gt', 'greaterThanOrEqualFunction': 'gte'}
XTYPES = ['eTypeBoolean', 'eTypeNumber', 'eTypeString', 'eTypeNodeSet', 'eTypeResultTreeFrag']


def is_identity_test(e):
    """this == &theRHS  (either order)"""
    e = strip_casts(e)
    if not e or e.get('k') != 'Bin' or e['op'] not in ('==', '!='):
        return False
    l, r = strip_casts(e['lhs']), strip_casts(e['rhs'])
    for a, b in ((l, r), (r, l)):
        if a and a.get('k') == 'This' and b and b.get('k') == 'Un' and b['op'] == '&':
            return True
    return False


class LeafEval(Evaluator):
    """runs a comparison function for concrete (lhsType, rhsType); returns the AST of the return expression reached"""

    def __init__(self, lhs_t, rhs_t, identity=False):
        super().__init__({})
        self.lhs_t = lhs_t; self.rhs_t = rhs_t; self.identity = identity

    def ev(self, e):
        k = e['k']
        if k == 'MCall' and e.get('n') == 'getType':
            o = strip_casts(e['obj'])
            if o.get('k') == 'This':
                return self.lhs_t
            if o.get('k') == 'Ref' and o.get('d') == 'param':
                return self.rhs_t
            raise Unsupported('getType on ' + pp(o))
        if is_identity_test(e):
            v = self.identity
            return int(v if strip_casts(e)['op'] == '==' else not v)
        return super().ev(e)

    def leaf(self, body):
        r = self._leaf(body)
        if r is None:
            raise Unsupported('no return')
        return r

    def _leaf(self, s):
        k = s['k']
        if k == 'Compound':
            for c in s['c']:
                r = self._leaf(c)
                if r is not None:
                    return r
            return None
        if k == 'Return':
            return s['e']
        if k == 'If':
            if self.ev(s['cond']):
                return self._leaf(s['then'])
            return self._leaf(s['else']) if s.get('else') else None
        if k == 'Decl':
            for v in s['vars']:
                if v.get('init') is not None:
                    self.env[v['id']] = self.ev(v['init'])
            return None
        if k == 'Null':
            return None
        if k == 'Cast' and s.get('ck') == 'ToVoid':
            return None
        raise Unsupported('stmt ' + k)


def classify_leaf(ev, e):
    """-> tuple describing what the comparison does for this type pair"""
    e = strip_casts(e)
    if e['k'] == 'Cond':  # x ? true : false
        t, f = strip_casts(e['t']), strip_casts(e['f'])
        if t.get('k') == 'Bool' and f.get('k') == 'Bool':
            try:
                v = ev.ev(e['c'])
                return ('const', bool(v) == bool(t['cv']))
            except Unsupported:
                inner = classify_leaf(ev, e['c'])
                return inner if t['cv'] else ('not',) + inner
    if e['k'] == 'Bool':
        return ('const', bool(e['cv']))
    if is_identity_test(e):
        return ('identity',)
    if e['k'] == 'Call':
        n = e.get('n')
        if n in NS_HELPER:
            a0, a1 = strip_casts(e['args'][0]), strip_casts(e['args'][1])
            first_is_this = a0.get('k') == 'Un' and a0['op'] == '*' and strip_casts(a0['e']).get('k') == 'This'
            try:
                third = ev.ev(e['args'][2])
            except Unsupported:
                third = None
            return ('nodeset', NS_HELPER[n], 'this-first' if first_is_this else 'rhs-first', third)
        if e.get('cls', '').endswith('DoubleSupport') and n in DS_FN:
            return ('num', DS_FN[n], order_of(e['args'][0], e['args'][1], 'num'))
    if e['k'] == 'Bin' and e['op'] in CPP_OP:
        l, r = strip_casts(e['lhs']), strip_casts(e['rhs'])
        if l.get('k') == 'MCall' and r.get('k') == 'MCall' and l.get('n') == r.get('n') == 'boolean':
            return ('bool', CPP_OP[e['op']], order_of(e['lhs'], e['rhs'], 'boolean'))
    if e['k'] == 'OpCall' and e['op'] in CPP_OP and len(e['args']) == 2:
        l, r = strip_casts(e['args'][0]), strip_casts(e['args'][1])
        if l.get('k') == 'MCall' and r.get('k') == 'MCall' and l.get('n') == r.get('n') == 'str':
            return ('str', CPP_OP[e['op']], order_of(e['args'][0], e['args'][1], 'str'))
    try:
        return ('const', bool(ev.ev(e)))
    except Unsupported:
        pass
    return ('?', pp(e))


def order_of(a, b, conv):
    a, b = strip_casts(a), strip_casts(b)

    def who(x):
        if x.get('k') == 'MCall' and x.get('n') == conv:
            o = strip_casts(x['obj'])
            if o.get('k') == 'This':
                return 'this'
            if o.get('k') == 'Ref':
                return 'rhs'
        return '?'
    return '%s,%s' % (who(a), who(b))


def expected(op, lt, rt):
    """XPath 1.0 §3.4 for a pair of the five XPath-visible types"""
    NS = 'eTypeNodeSet'
    rel = op in ('lt', 'lte', 'gt', 'gte')
    if lt == NS:
        return ('nodeset', op, 'this-first', rt)
    if rt == NS:
        return ('nodeset', MIRROR[op], 'rhs-first', lt)
    if rel:
        return ('num', op, 'this,rhs')
    if 'eTypeBoolean' in (lt, rt):
        return ('bool', op, 'this,rhs')
    if 'eTypeNumber' in (lt, rt):
        return ('num', op, 'this,rhs')
    return ('str', op, 'this,rhs')


def r3_r4_comparisons(res, facts):
    r3 = res.rule('C02-R3', 'XObject comparisons are functions of the operand values: no result is decided by object identity (this == &theRHS) for XPath-typed operands', floor=6)
    r4 = res.rule('C02-R4', 'type-pair dispatch of the six XObject comparisons and of compareNodeSets equals XPath 1.0 §3.4 (25 type pairs x 6 operators; functor pairs per operator)', floor=150)
    tv = {n.split('::')[-1]: v for n, v in facts.enumconst.items() if '::XObject::eType' in n}
    for fn, op in CMP_FUNCS.items():
        asts = facts.asts('XObject::' + fn)
        a = asts[0]
        loc = common.file_line(a)
        # R3: with identical objects of each XPath type the leaf reached must be the same as for distinct objects
        shortcut = False
        for t in XTYPES:
            try:
                same = classify_leaf(LeafEval(tv[t], tv[t], True), LeafEval(tv[t], tv[t], True).leaf(a['body']))
                diff = classify_leaf(LeafEval(tv[t], tv[t], False), LeafEval(tv[t], tv[t], False).leaf(a['body']))
            except Unsupported as u:
                raise AnalysisBroken('XObject::%s uses a construct outside the interpreted subset: %s' % (fn, u))
            if same != diff:
                shortcut = True
        site = 'XObject::%s identity shortcut' % fn
        if shortcut:
            r3.violation(site, 'for operands of XPath types the result is decided by "this == &theRHS" ahead of the type dispatch; e.g. a variable compared with itself '
                         '(NaN = NaN must be false, $n <= $n true, $nodeset < $nodeset may be true)', loc)
        else:
            r3.ok(site)
        # R4
        for lt in XTYPES:
            for rt in XTYPES:
                ev = LeafEval(tv[lt], tv[rt], False)
                got = classify_leaf(ev, ev.leaf(a['body']))
                want = expected(op, lt, rt)
                if want[0] == 'nodeset':
                    want = want[:3] + (tv[want[3]],)
                site = 'XObject::%s (%s,%s)' % (fn, lt[5:], rt[5:])
                if got == want:
                    r4.ok(site, str(got))
                else:
                    r4.violation(site, 'dispatch gives %s, XPath 1.0 §3.4 requires %s' % (got, want), loc)
    # per-operator node-set wrappers: functor pair of the same operator
    for helper, op in NS_HELPER.items():
        asts = [facts.ast(u) for n, us in facts.astbyname.items() if n.endswith('::' + helper) for u in us]
        if not asts:
            raise AnalysisBroken('node-set comparison helper %s not found' % helper)
        a = asts[0]
        sf = nf = None
        for c in calls(a['body']):
            n = (c.get('cls') or callee(c)).split('::')[-1] if c['k'] == 'Ctor' else (c.get('n') or '')
            nm = short(c.get('cls', '')).split('::')[-1] if c['k'] == 'Ctor' else n
            if nm in STR_FUNCTOR:
                sf = STR_FUNCTOR[nm]
            if nm in NUM_FUNCTOR:
                nf = NUM_FUNCTOR[nm]
        for x in walk(a['body']):
            t = short(x.get('ty', '') or '')
            for k2, v in NUM_FUNCTOR.items():
                if t.endswith('DoubleSupport::' + k2):
                    nf = v
            for k2, v in STR_FUNCTOR.items():
                if t.endswith(k2):
                    sf = v
        site = '%s functors' % helper
        if sf == op and nf == op:
            r4.ok(site, 'string %s, number %s' % (sf, nf))
        else:
            r4.violation(site, 'operator %s uses string functor %s and number functor %s' % (op, sf, nf), common.file_line(a))
    # DoubleSupport functors call the function of their own name
    for fname, op in NUM_FUNCTOR.items():
        asts = facts.asts('DoubleSupport::%s::operator()' % fname)
        got = None
        for c in calls(asts[0]['body']):
            if c.get('n') in DS_FN:
                got = DS_FN[c['n']]
        site = 'DoubleSupport::%s' % fname
        if got == op:
            r4.ok(site)
        else:
            r4.violation(site, 'functor evaluates %s' % got, common.file_line(asts[0]))
    # compareNodeSets dispatch on the other operand's type
    cns = [facts.ast(u) for n, us in facts.astbyname.items() if n.endswith('::compareNodeSets') for u in us]
    if len(cns) < 6:
        raise AnalysisBroken('compareNodeSets: expected 6 instantiations, found %d' % len(cns))
    want_helper = {'eTypeNodeSet': ('doCompareNodeSets', 'str'), 'eTypeBoolean': ('functor(boolean,num)', 'num'), 'eTypeNumber': ('doCompareNumber', 'num'),
                   'eTypeString': ('doCompareString', 'str')}
    for a in cns:
        p_type = a['params'][2]['id']; p_sf = a['params'][3]['id']; p_nf = a['params'][4]['id']
        for t, (wh, wf) in want_helper.items():
            ev = Evaluator({p_type: tv[t]})
            got = None
            try:
                got = branch_assign(ev, a['body'])
            except Unsupported as u:
                raise AnalysisBroken('compareNodeSets outside the interpreted subset: %s' % u)
            site = 'compareNodeSets<%s>(%s)' % (short(a['params'][4]['ty']).split('::')[-1].replace(' &', '').replace('const ', ''), t[5:])
            desc = None
            if got is not None:
                g = strip_casts(got)
                if g['k'] == 'Call':
                    fnn = g.get('n')
                    used = {strip_casts(x).get('id') for x in g['args'] if strip_casts(x) is not None and strip_casts(x).get('k') == 'Ref'}
                    desc = (fnn, 'str' if p_sf in used else ('num' if p_nf in used else '?'))
                elif g['k'] == 'OpCall' and g['op'] == '()':
                    f0 = strip_casts(g['args'][0])
                    desc = ('functor(boolean,num)', 'num' if f0.get('id') == p_nf else ('str' if f0.get('id') == p_sf else '?'))
                    txt = pp(g)
                    if 'boolean' not in pp_deep(a, g) or '.num(' not in txt and 'num(' not in txt:
                        desc = ('functor(?)', desc[1])
            if desc == (wh, wf):
                r4.ok(site, '%s with the %s functor' % desc)
            else:
                r4.violation(site, 'node-set vs %s handled by %s, §3.4 requires %s with the %s comparison' % (t[5:], desc, wh, wf), common.file_line(a))
    return r3, r4


def pp_deep(fn_ast, call):
    """text of the call with local initialisers inlined one level (num1 = theLHS.boolean(..) ? 1.0 : 0.0)"""
    txt = pp(call)
    for x in walk(fn_ast['body']):
        if x['k'] == 'Decl':
            for v in x['vars']:
                if v.get('init') is not None and v['n'] in txt:
                    txt += ' /*%s=%s*/' % (v['n'], pp(v['init']))
    return txt


def branch_assign(ev, body):
    """follow the if/else-if chain of compareNodeSets for a concrete type of the other operand; returns the value assigned to the local the function returns"""
    result_ids = {strip_casts(x['e']).get('id') for x in walk(body) if x.get('k') == 'Return' and x.get('e') is not None and (strip_casts(x['e']) or {}).get('k') == 'Ref'
                  and (strip_casts(x['e']) or {}).get('d') == 'local'}
    def go(s):
        k = s['k']
        if k == 'Compound':
            last = None
            for c in s['c']:
                v = go(c)
                if v is not None:
                    last = v
            return last
        if k == 'If':
            try:
                c = ev.ev(s['cond'])
            except Unsupported:
                # data-dependent split (NaN test for result tree fragments): not part of the 4 XPath types checked
                return None
            if c:
                return go(s['then'])
            return go(s['else']) if s.get('else') else None
        if k == 'Bin' and s['op'] == '=':
            l = strip_casts(s['lhs'])
            if l.get('k') == 'Ref' and l.get('id') in result_ids:
                return s['rhs']
        return None
    return go(body)


BRACKETING = {'PrimaryExpr', 'Predicate', 'PredicateExpr', 'FunctionCall', 'FunctionCallArguments', 'Argument', 'Literal', 'Number'}
REPEATING = {'OrExpr': "OrExpr ::= AndExpr | OrExpr 'or' AndExpr", 'AndExpr': "AndExpr ::= EqualityExpr | AndExpr 'and' EqualityExpr",
             'EqualityExpr': "EqualityExpr ::= RelationalExpr | EqualityExpr ('='|'!=') RelationalExpr", 'RelationalExpr': "RelationalExpr ::= AdditiveExpr | RelationalExpr ('<'|'>'|'<='|'>=') AdditiveExpr",
             'AdditiveExpr': "AdditiveExpr ::= MultiplicativeExpr | AdditiveExpr ('+'|'-') MultiplicativeExpr", 'MultiplicativeExpr': "MultiplicativeExpr ::= UnaryExpr | MultiplicativeExpr ('*'|'div'|'mod') UnaryExpr",
             'UnaryExpr': "UnaryExpr ::= UnionExpr | '-' UnaryExpr", 'UnionExpr': "UnionExpr ::= PathExpr | UnionExpr '|' PathExpr",
             'RelativeLocationPath': "RelativeLocationPath ::= Step | RelativeLocationPath '/' Step", 'FunctionCallArguments': "'(' ( Argument ( ',' Argument )* )? ')'"}


def r5_grammar(res, facts):
    r = res.rule('C02-R5', 'each XPath 1.0 production with a recursive alternative is parsed by a function that loops or re-enters itself without passing a bracketing production', floor=9)
    cg = facts.cg
    for name, prod in REPEATING.items():
        ks = facts.fn('XPathProcessorImpl::' + name)
        for k in ks:
            a = facts.ast(k)
            has_loop = any(x['k'] in ('While', 'Do', 'For') for x in walk(a['body']))
            # self-reachability avoiding bracketing productions
            def stop(y):
                f = facts.F.get(y, {})
                return f.get('cls', '').endswith('XPathProcessorImpl') and f['name'].split('::')[-1] in BRACKETING and y != k
            seen = set(); st = list(cg.adj.get(k, ())); selfrec = False
            while st:
                y = st.pop()
                if y == k:
                    selfrec = True; break
                if y in seen or stop(y):
                    continue
                if not facts.F.get(y, {}).get('cls', '').endswith('XPathProcessorImpl'):
                    continue
                seen.add(y); st.extend(cg.adj.get(y, ()))
            site = 'XPathProcessorImpl::%s' % name
            if has_loop or selfrec:
                r.ok(site, 'loop' if has_loop else 'recursion')
            else:
                r.violation(site, 'production %s repeats, but the function neither loops nor re-enters itself: a second operator is rejected (e.g. "- - 1")' % prod, common.file_line(a))
    return r


def run(res, facts, tier):
    r1_tables(res, facts)
    r2_producers(res, facts)
    r3_r4_comparisons(res, facts)
    r5_grammar(res, facts)


# ----------------------------------------------------------------------------------------------- R7: position() cache coherence
LIST_SHIFTERS = {'clearNulls', 'clear', 'addNode', 'addNodeInDocOrder', 'addNodesInDocOrder', 'addNodes', 'removeNode', 'insertNode', 'swap', 'reverse', 'operator='}
INVALIDATORS = {'pushContextNodeList', 'popContextNodeList'}


def r7_position_cache(res, facts):
    from ..mast import CFG
    r = res.rule('C02-R7', 'position() cache coherence: the one-entry (node -> position) cache of the execution context is flushed whenever the current context node list '
                 'changes identity (push / pop) or content (in-place filtering between two predicates of one step)', floor=3)
    # (a) functions of XPathExecutionContextDefault that change which list is current flush the cache on every path
    changers = set()
    for w in facts.W:
        if short(w['field']) == 'XPathExecutionContextDefault::m_contextNodeListStack' and w['kind'] in ('call:push_back', 'call:pop_back', 'call:clear', 'call:swap', 'assign'):
            f = facts.F.get(w['from'], {})
            if f.get('kind') == 'method':
                changers.add(w['from'])
    if not changers:
        raise AnalysisBroken('no function changes m_contextNodeListStack')
    for k in sorted(changers, key=lambda k: facts.name[k]):
        a = facts.ast(k)
        cfg = CFG(a)

        def flushes(n):
            if n.ast is None:
                return False
            for c in calls(n.ast):
                o = strip_casts(c.get('obj')) if c.get('obj') is not None else None
                if c.get('n') in ('clear', 'reset') and o is not None and o.get('m') == 'm_cachedPosition':
                    return True
            return False
        site = '%s flushes the position cache' % short(facts.name[k])
        seen = cfg.reachable_avoiding([cfg.entry], flushes)
        if cfg.exit.id in seen:
            r.violation(site, 'the current context node list changes but a path leaves the cached (node -> position) pair in place: the next position() for that node '
                        'returns its position in another list (node lists are pooled and reused)', common.file_line(a))
        else:
            r.ok(site)
    # (b) in XPath::predicates, after the list has been compacted / rebuilt, the cache is flushed before the next predicate is evaluated
    for a in facts.asts('XPath::predicates'):
        lst = [p for p in a['params'] if 'MutableNodeRefList' in p['ty']]
        if not lst:
            continue
        lid = lst[0]['id']
        cfg = CFG(a)

        def invalidates(n):
            if n.ast is None:
                return False
            if n.ast.get('k') == 'Decl' and any('ContextNodeListPushAndPop' in v['ty'] for v in n.ast['vars']):
                return True
            return any(c.get('n') in INVALIDATORS for c in calls(n.ast))

        def evaluates(n):
            return n.ast is not None and any(c.get('n') in ('predicate', 'executeMore') and 'XPath' in (c.get('cls') or '') for c in calls(n.ast))
        shifters = []
        for n in cfg.nodes:
            if n.ast is None:
                continue
            for c in calls(n.ast):
                o = strip_casts(c.get('obj')) if c.get('obj') is not None else None
                if c.get('n') in LIST_SHIFTERS and o is not None and o.get('id') == lid:
                    shifters.append((n, c))
        if not shifters:
            raise AnalysisBroken('XPath::predicates: no in-place filtering of the node list found')
        for n, c in shifters:
            seen = cfg.reachable_avoiding([n], invalidates)
            hit = [cfg.nodes[i] for i in seen if evaluates(cfg.nodes[i])]
            site = 'XPath::predicates: %s.%s() then next predicate' % (lst[0]['n'], c.get('n'))
            if hit:
                r.violation(site, 'the node list is changed in place and the next predicate is evaluated without flushing the position cache: position() can answer with the '
                            'node\'s position before the change (item[position()>3][position()=1])', common.file_line(a, c))
            else:
                r.ok(site)
    return r


_run_c02_16 = run


def run(res, facts, tier):
    _run_c02_16(res, facts, tier)
    r7_position_cache(res, facts)


# ----------------------------------------------------------------------------------------------- R6: IEEE arithmetic primitives
def r6_ieee(res, facts):
    import math, itertools
    from ..mast import Machine, Unsupported as _U, ieee_arith
    r = res.rule('C02-R6', 'DoubleSupport arithmetic and comparison primitives (what the XPath operators + - * div = != < <= > >= and unary minus evaluate to) agree with IEEE 754 on '
                 'every pair of value classes {NaN, +inf, -inf, +0, -0, positive, negative}: decided by interpreting their bodies', floor=400)
    D = [float('nan'), float('inf'), float('-inf'), 0.0, -0.0, 1.5, -1.5, 2.0, -3.0]

    def same(x, y):
        if isinstance(x, float) and isinstance(y, float):
            if x != x or y != y:
                return (x != x) and (y != y)
            return x == y and math.copysign(1.0, x) == math.copysign(1.0, y)
        return x == y

    def hook(m, c):
        n = c.get('n') or ''
        a = [m.ev(x) for x in c['args']] if n in ('isNaN', 'isPositiveInfinity', 'isNegativeInfinity', 'isPositiveZero', 'isNegativeZero') else None
        if n == 'isNaN':
            return int(a[0] != a[0])
        if n == 'isPositiveInfinity':
            return int(a[0] == float('inf'))
        if n == 'isNegativeInfinity':
            return int(a[0] == float('-inf'))
        if n == 'isPositiveZero':
            return int(a[0] == 0.0 and math.copysign(1.0, a[0]) > 0)
        if n == 'isNegativeZero':
            return int(a[0] == 0.0 and math.copysign(1.0, a[0]) < 0)
        if n == 'getNaN':
            return float('nan')
        if n == 'getPositiveInfinity':
            return float('inf')
        if n == 'getNegativeInfinity':
            return float('-inf')
        if (c.get('cls') or '').endswith('DoubleSupport') and c.get('usr') in facts.astidx:
            sub = facts.ast(c['usr'])
            mm = Machine({p_['id']: m.ev(x_) for p_, x_ in zip(sub['params'], c['args'])}, call_hook=hook)
            return mm.call(sub['body'])
        return NotImplemented
    ops2 = {'add': lambda x, y: x + y, 'subtract': lambda x, y: x - y, 'multiply': lambda x, y: x * y, 'divide': lambda x, y: ieee_arith('/', x, y),
            'equal': lambda x, y: int(x == y), 'notEqual': lambda x, y: int(x != y), 'lessThan': lambda x, y: int(x < y), 'lessThanOrEqual': lambda x, y: int(x <= y),
            'greaterThan': lambda x, y: int(x > y), 'greaterThanOrEqual': lambda x, y: int(x >= y)}
    fmt = lambda v: repr(v)
    for fn, oracle in ops2.items():
        asts = facts.asts('DoubleSupport::' + fn)
        a = [x for x in asts if len(x['params']) == 2][0]
        for x, y in itertools.product(D, D):
            m = Machine({a['params'][0]['id']: x, a['params'][1]['id']: y}, call_hook=hook)
            try:
                got = m.call(a['body'])
            except _U as u:
                raise AnalysisBroken('DoubleSupport::%s outside the interpreted subset: %s' % (fn, u))
            want = oracle(x, y)
            got = float(got) if isinstance(want, float) and isinstance(got, (int, float)) else (int(bool(got)) if isinstance(want, int) else got)
            site = 'DoubleSupport::%s(%s, %s)' % (fn, fmt(x), fmt(y))
            if same(got, want):
                r.ok(site, fmt(got))
            else:
                r.violation(site, 'yields %s, IEEE 754 (XPath 1.0 §3.5 / §3.4) requires %s' % (fmt(got), fmt(want)), common.file_line(a))
    a = facts.asts('DoubleSupport::negative')[0]
    for x in D:
        m = Machine({a['params'][0]['id']: x}, call_hook=hook)
        got = m.call(a['body'])
        want = -x
        site = 'DoubleSupport::negative(%s)' % fmt(x)
        if same(float(got), want):
            r.ok(site)
        else:
            r.violation(site, 'yields %s, IEEE requires %s' % (fmt(got), fmt(want)), common.file_line(a))
    return r


_run_c02_17 = run


def run(res, facts, tier):
    _run_c02_17(res, facts, tier)
    r6_ieee(res, facts)


# ----------------------------------------------------------------------------------------------- R8: the XPath parent of a node
RAW_PARENT_REVIEWED = {
    'XPath::findNamespace': 'walks from an element through its ancestors looking for namespace declarations: the receiver is an element or a document, never an attribute',
    'XPath::findPreceedingSiblings': 'experimental branch: an attribute has no siblings, "no parent" is the intended answer there',
}


def r8_parent(res, facts):
    r = res.rule('C02-R8', 'the XPath data model\'s parent (the owner element for an attribute or namespace node) is obtained through DOMServices::getParentOfNode in the '
                 'evaluator; XalanNode::getParentNode — null for attributes — is used on a generic node only at reviewed sites', floor=15)
    n_ok = 0
    for k in facts.astidx:
        a = facts.ast(k)
        if a is None or not a['file'].endswith('/XPath/XPath.cpp'):
            continue
        fn = short(facts.name[k])
        for c in calls(a['body']):
            n = c.get('n') or callee(c).split('::')[-1]
            if n == 'getParentOfNode':
                r.ok('%s: getParentOfNode' % fn)
            elif n == 'getParentNode' and c.get('k') == 'MCall':
                cls = short(c.get('cls') or '')
                site = '%s: %s.getParentNode()' % (fn, pp(strip_casts(c.get('obj')))[:30])
                if cls not in ('XalanNode', ''):
                    r.ok(site, 'receiver is a %s' % cls)
                elif fn in RAW_PARENT_REVIEWED:
                    r.ok(site, RAW_PARENT_REVIEWED[fn])
                else:
                    r.violation(site, 'XalanNode::getParentNode() on a generic node in the XPath evaluator: for an attribute or namespace node it returns null, while the XPath parent '
                                'is the owner element (DOMServices::getParentOfNode); axes computed from an attribute context lose or gain nodes', common.file_line(a, c))
    return r


_run_c02_18 = run


def run(res, facts, tier):
    _run_c02_18(res, facts, tier)
    r8_parent(res, facts)


# ----------------------------------------------------------------------------------------------- R9: recycled XObjects forget what they cached
CACHE_EXEMPT = {
    'XObject::m_memoryManager': 'not derived from the value',
    'XStringBase::m_resultTreeFrag': 'a proxy that refers back to the object and reads its value when asked; holds no copy',
}


def r9_recycled(res, facts):
    r = res.rule('C02-R9', 'XObjectFactoryDefault takes XString / XNumber / XNodeSet objects from its caches and gives them a new value through set(): that method (with the members '
                 'it calls) re-initialises every mutable member of the class and of its bases — the values cached from the previous value (number of a string, string of a number, ...)', floor=4)
    n_sites = 0
    for a in facts.asts_t('XObjectFactoryDefault::createString') + facts.asts('XObjectFactoryDefault::createNumber', must=False) + facts.asts('XObjectFactoryDefault::createNodeSet', must=False):
        cs = list(calls(a['body']))
        if not any(c.get('n') == 'pop_back' for c in cs):
            continue
        for c in cs:
            if c.get('k') == 'MCall' and c.get('n') in ('set', 'reset', 'assign') and (c.get('cls') or '').startswith('xalanc_1_12::X') and 'Vector' not in (c.get('cls') or ''):
                n_sites += 1
                cls = c['cls']
                # mutable members of the class and its bases
                chain = []
                todo = [cls]
                while todo:
                    k = todo.pop()
                    if k in chain or k not in facts.K:
                        continue
                    chain.append(k)
                    todo += facts.K[k].get('bases', [])
                muts = [(short(k) + '::' + fl['n']) for k in chain for fl in facts.K[k].get('fields', []) if fl.get('mutable')]
                # fields written by the re-initialising method and the members of the chain it calls (depth 3)
                written = set()
                seen = set()
                work = [(c.get('usr'), 0)]
                while work:
                    u, d = work.pop()
                    if u in seen or u is None:
                        continue
                    seen.add(u)
                    for w in facts.W:
                        if w['from'] == u:
                            written.add(short(w['field']))
                    if d < 3:
                        b = facts.ast(u)
                        if b is not None:
                            for cc in calls(b['body']):
                                if cc.get('k') == 'MCall' and cc.get('usr') and (strip_casts(cc.get('obj')) is None or strip_casts(cc['obj']).get('k') == 'This'):
                                    work.append((cc['usr'], d + 1))
                for m in muts:
                    site = '%s recycled through %s(): %s' % (short(cls), c['n'], m.split('::')[-1])
                    if m in CACHE_EXEMPT:
                        r.ok(site, 'exempt: ' + CACHE_EXEMPT[m])
                    elif m in written:
                        r.ok(site, 're-initialised')
                    else:
                        r.violation(site, '%s keeps %s from its previous value when the factory re-uses it: a value derived from the old contents is returned for the new ones' % (short(cls), m),
                                    common.file_line(a, c))
    if n_sites < 3:
        raise AnalysisBroken('only %d recycle sites found in XObjectFactoryDefault (XString, XNumber, XNodeSet expected)' % n_sites)
    return r


_run_c02_19 = run


def run(res, facts, tier):
    _run_c02_19(res, facts, tier)
    r9_recycled(res, facts)


# ----------------------------------------------------------------------------------------------- R10: function arity
ARITY = {   # XPath 1.0 §4 and XSLT 1.0 §12: name -> accepted argument counts ('2+' = two or more)
    'last': {0}, 'position': {0}, 'count': {1}, 'id': {1}, 'local-name': {0, 1}, 'namespace-uri': {0, 1}, 'name': {0, 1},
    'string': {0, 1}, 'concat': {'2+'}, 'starts-with': {2}, 'contains': {2}, 'substring-before': {2}, 'substring-after': {2}, 'substring': {2, 3},
    'string-length': {0, 1}, 'normalize-space': {0, 1}, 'translate': {3}, 'boolean': {1}, 'not': {1}, 'true': {0}, 'false': {0}, 'lang': {1},
    'number': {0, 1}, 'sum': {1}, 'floor': {1}, 'ceiling': {1}, 'round': {1},
    'document': {1, 2}, 'key': {2}, 'format-number': {2, 3}, 'current': {0}, 'unparsed-entity-uri': {1}, 'generate-id': {0, 1}, 'system-property': {1},
    'element-available': {1}, 'function-available': {1},
}
SHORTCUT_COMPILERS = {'FunctionPosition': 'position', 'FunctionLast': 'last', 'FunctionCount': 'count', 'FunctionNot': 'not', 'FunctionTrue': 'true', 'FunctionFalse': 'false',
                      'FunctionBoolean': 'boolean', 'FunctionName': 'name', 'FunctionLocalName': 'local-name', 'FunctionNumber': 'number', 'FunctionFloor': 'floor',
                      'FunctionCeiling': 'ceiling', 'FunctionRound': 'round', 'FunctionString': 'string', 'FunctionSum': 'sum', 'FunctionStringLength': 'string-length',
                      'FunctionNamespaceURI': 'namespace-uri'}


def r10_arity(res, facts):
    from ..mast import Machine, Unsupported as _U
    r = res.rule('C02-R10', 'every core function accepts exactly the argument counts XPath 1.0 §4 / XSLT 1.0 §12 give it: the compile functions of the shortcut op codes are interpreted '
                 'for 0..3 arguments (error or not), and each Function class installed in the function table implements execute() for exactly the arities of the name it is installed under', floor=30)
    # (a) shortcut compile functions
    for fn, name in sorted(SHORTCUT_COMPILERS.items()):
        asts = facts.asts('XPathProcessorImpl::' + fn, must=False)
        if not asts:
            r.violation('compile %s()' % name, 'XPathProcessorImpl::%s is gone' % fn, None)
            continue
        a = asts[0]
        accepted = set()
        for n in range(0, 4):
            errs = []

            def hook(m, c, n=n):
                nm = c.get('n') or callee(c).split('::')[-1]
                if nm == 'FunctionCallArguments':
                    return n
                if nm == 'error':
                    errs.append(1)
                    return 0
                if nm in ('appendOpCode', 'replaceOpCode', 'nextToken', 'insertOpCode', 'updateOpCodeLength', 'back', 'empty', 'setOpCodeMapValue'):
                    return 0
                if c['k'] in ('Ctor', 'OpCall'):
                    return 0
                return 0
            m = Machine({p['id']: 0 for p in a['params']}, call_hook=hook)
            try:
                m.call(a['body'])
            except _U as u:
                # assignments to m_positionPredicateStack.back() and the like: not part of the arity decision
                pass
            if not errs:
                accepted.add(n)
        site = 'compile %s()' % name
        if accepted == ARITY[name]:
            r.ok(site, 'accepts %s argument(s)' % sorted(accepted))
        else:
            r.violation(site, 'accepts %s argument(s), XPath 1.0 gives %s' % (sorted(accepted), sorted(ARITY[name])), common.file_line(a))
    # (b) Function classes in the table
    ct = facts.asts('XPathFunctionTable::CreateTable')[0]
    der = facts.derived('xalanc_1_12::Function')
    arity = collections.defaultdict(set)
    for k, v in facts.F.items():
        if v.get('kind') == 'method' and v['name'].split('::')[-1] == 'execute' and v.get('cls') in der and v.get('def'):
            ps = v.get('params', [])
            if any('XObjectArgVectorType' in p or 'XalanVector' in p for p in ps):
                arity[v['cls']].add('N')
            else:
                arity[v['cls']].add(len(ps) - 3)
    n_inst = 0
    installs = [(ct, c) for c in calls(ct['body']) if (c.get('n') or '') == 'InstallFunction']
    for b in facts.asts('XSLTEngineImpl::installFunctions', must=False):
        locals_ = {v['id']: v for x in walk(b['body']) if x.get('k') == 'Decl' for v in x.get('vars', [])}
        for c in calls(b['body']):
            if (c.get('n') or '') == 'installFunction':
                installs.append((b, c))
    for ct, c in installs:
        if len(c.get('args', [])) < 2:
            continue
        nm_ref = strip_casts(c['args'][0])
        t = facts.table(nm_ref.get('q') or ('XPathFunctionTable::' + nm_ref.get('n', '')), must=False) if isinstance(nm_ref, dict) else None
        if not t:
            continue
        name = ''.join(chr(x) for x in facts.resolve(t['val']) if isinstance(x, int) and x)
        ctor = strip_casts(c['args'][1])
        while isinstance(ctor, dict) and ctor.get('k') == 'Ctor' and ctor.get('copy') and ctor.get('args'):
            ctor = strip_casts(ctor['args'][0])
        cls = ctor.get('cls') if isinstance(ctor, dict) else None
        if not cls and isinstance(ctor, dict) and ctor.get('k') == 'Ref':
            cls = (ctor.get('ty') or '').replace('const ', '').strip()
        if not cls or short(cls) == 'FunctionNotImplemented' or name not in ARITY:
            continue
        n_inst += 1
        got = arity.get(cls, set())
        want = ARITY[name]
        norm = set(got)
        if '2+' in want:
            ok = {2, 3, 'N'} <= got and 0 not in got and 1 not in got
        else:
            ok = (got - {'N'}) == want
        site = "function table: '%s' -> %s" % (name, short(cls))
        if ok:
            r.ok(site, 'execute() implemented for %s' % sorted(got, key=str))
        else:
            r.violation(site, 'the class implements execute() for %s argument(s), the Recommendation gives %s' % (sorted(got, key=str), sorted(want, key=str)), common.file_line(ct, c))
    if n_inst < 18:
        raise AnalysisBroken('only %d core functions found in XPathFunctionTable::CreateTable / XSLTEngineImpl::installFunctions' % n_inst)
    return r


_run_c02_20 = run


def run(res, facts, tier):
    _run_c02_20(res, facts, tier)
    r10_arity(res, facts)


# ----------------------------------------------------------------------------------------------- R11: substring()
def r11_substring(res, facts):
    """XPath 1.0 §4.2: the characters whose position p satisfies p >= round(a) and, with a third argument, p < round(a) + round(b), by IEEE rules."""
    import math, itertools
    from ..mast import Machine, Unsupported as _U
    r = res.rule('C02-R11', "substring(): FunctionSubstring::execute with getStartIndex / getSubstringLength interpreted on '12345' for start and length over "
                 '{NaN, ±inf, negative, 0, fractions, in range, beyond the end} (length also absent); the result is the set of positions XPath 1.0 §4.2 defines '
                 '(round() taken as floor(x + 0.5), which is what DoubleSupport::round is for; IEEE comparisons)', floor=150)
    cands = [a for a in facts.asts('FunctionSubstring::execute') if len(a['params']) == 6]
    if len(cands) != 1:
        raise AnalysisBroken('FunctionSubstring::execute(6 parameters): %d bodies' % len(cands))
    a = cands[0]
    helpers = {n: facts.asts(n, must=False) for n in ('getStartIndex', 'getSubstringLength')}
    if not all(helpers.values()):
        raise AnalysisBroken('FunctionSubstring helpers getStartIndex / getSubstringLength not found')
    S = '12345'
    nan, inf = float('nan'), float('inf')
    A = [nan, -inf, -42.0, -0.5, 0.0, 0.4, 0.5, 1.0, 1.5, 2.5, 3.0, 5.0, 5.5, 6.0, inf]
    B = [None, nan, -inf, -1.0, 0.0, 0.5, 1.0, 1.5, 2.6, 3.0, 44.0, inf]

    def rnd(x):
        if x != x or x in (inf, -inf):
            return x
        return float(math.floor(x + 0.5))

    def spec(av, bv):
        ra = rnd(av)
        out = ''
        for p in range(1, len(S) + 1):
            ok = p >= ra
            if bv is not None:
                ok = ok and (p < ra + rnd(bv))
            if ok:
                out += S[p - 1]
        return out
    pid = [p['id'] for p in a['params']]
    reported = 0
    for av, bv in itertools.product(A, B):
        result = []

        def hook(m, c, av=av, bv=bv):
            n = c.get('n') or callee(c).split('::')[-1]
            k = c['k']
            if n == 'str':
                return S
            if n == 'length':
                return len(m.ev(c['obj']))
            if n == 'num':
                o = strip_casts(c.get('obj'))
                which = pp(o)
                return av if 'arg2' in which else bv
            if n == 'null':
                which = pp(strip_casts(c.get('obj')))
                return int(bv is None) if 'arg3' in which else 0
            if n == 'round':
                return rnd(m.ev(c['args'][0]))
            if n == 'isNaN':
                x = m.ev(c['args'][0]); return int(x != x)
            if n == 'isPositiveInfinity':
                return int(m.ev(c['args'][0]) == inf)
            if n == 'isNegativeInfinity':
                return int(m.ev(c['args'][0]) == -inf)
            if n in ('lessThanOrEqual', 'lessThan', 'greaterThan', 'greaterThanOrEqual', 'equal'):
                x, y = m.ev(c['args'][0]), m.ev(c['args'][1])
                return int({'lessThanOrEqual': x <= y, 'lessThan': x < y, 'greaterThan': x > y, 'greaterThanOrEqual': x >= y, 'equal': x == y}[n])
            if n == 'createEmptyString':
                result.append('')
                return 'RESULT'
            if n in helpers:
                b = helpers[n][0]
                sub = type(m)({p['id']: m.ev(x) if not (isinstance(strip_casts(x), dict) and 'arg3' == pp(strip_casts(x))) else 'ARG3' for p, x in zip(b['params'], c['args'])}, call_hook=hook)
                return sub.call(b['body'])
            if n == 'c_str':
                return ('ptr', m.ev(c['obj']), 0)
            if n == 'assign' and len(c['args']) == 2:
                base = m.ev(c['args'][0]); ln = m.ev(c['args'][1])
                s0, off = (base[1], base[2]) if isinstance(base, tuple) else (base, 0)
                result.append(s0[int(off):int(off) + int(ln)])
                return 0
            if n in ('get', 'getXObjectFactory'):
                return 'OBJ'
            if n == 'createString':
                return 'RESULT'
            if k == 'Ctor':
                return m.ev(c['args'][0]) if len(c.get('args', [])) == 1 else 'GUARD'
            if k == 'OpCall' and c['op'] in ('->', '*') and len(c['args']) == 1:
                return m.ev(c['args'][0])
            return NotImplemented

        class SM(Machine):
            def ev(self, e):
                if e.get('k') == 'Bin' and e['op'] == '+':
                    l = self.ev(e['lhs'])
                    if isinstance(l, tuple) and l[0] == 'ptr':
                        return ('ptr', l[1], l[2] + int(self.ev(e['rhs'])))
                if e.get('k') == 'Cast' and e.get('ck') == 'FloatingToIntegral':
                    v = self.ev(e['e'])
                    if v != v or v in (inf, -inf) or v < 0 or v >= 2 ** 64:
                        raise _U('conversion of %r to an unsigned integer (undefined behaviour)' % v)
                    return int(v)
                return super().ev(e)
        env = {pid[0]: 'CTX', pid[1]: 0, pid[2]: 'ARG1', pid[3]: 'ARG2', pid[4]: 'ARG3', pid[5]: 0}
        m = SM(env, call_hook=hook)
        site = "substring('12345', %s%s)" % (av, '' if bv is None else ', %s' % bv)
        try:
            m.call(a['body'])
            got = result[-1] if result else None
        except _U as u:
            got = 'UNDEFINED: %s' % u
        want = spec(av, bv)
        if got == want:
            r.ok(site, repr(got))
        else:
            reported += 1
            if reported <= 3:
                r.violation(site, 'the code yields %r, XPath 1.0 §4.2 requires %r' % (got, want), common.file_line(a))
            else:
                r.instances += 1
    return r


_run_c02_21 = run


def run(res, facts, tier):
    _run_c02_21(res, facts, tier)
    r11_substring(res, facts)


# ----------------------------------------------------------------------------------------------- R12: node-set comparison kernels
class _Cell:
    def __init__(self):
        self.v = ''


def r12_nodeset_kernels(res, facts):
    """XPath 1.0 §3.4: a comparison involving a node-set is true iff SOME node (pair of nodes) makes the comparison of the converted values true."""
    import itertools
    from ..mast import Machine, Unsupported as _U
    r = res.rule('C02-R12', 'node-set comparison kernels (doCompareNumber, doCompareString, doCompareNodeSets in XObject.cpp) interpreted on node lists of 0..2 nodes: the result is '
                 '"some node (pair) satisfies the comparison" for every operator, including != against NaN and the empty node-set', floor=300)
    nan = float('nan')
    OPS = {'==': lambda a, b: a == b, '!=': lambda a, b: a != b, '<': lambda a, b: a < b, '<=': lambda a, b: a <= b, '>': lambda a, b: a > b, '>=': lambda a, b: a >= b}

    def run_kernel(a, lists, rhs, op, kind):
        """interpret one kernel instantiation; lists: the node lists (python lists of values) in parameter order"""
        plist = [p for p in a['params']]
        env = {}
        li = 0
        roles = {}
        for p in plist:
            ty = p.get('ty') or ''
            if 'NodeRefListBase' in ty:
                env[p['id']] = ('LIST', lists[li]); li += 1
            elif 'XPathExecutionContext' in ty:
                env[p['id']] = 'CTX'
            elif p['n'].lower().find('compare') >= 0:
                env[p['id']] = 'CMP'
            elif p['n'].lower().find('function') >= 0:
                env[p['id']] = 'VALFN'
            else:
                env[p['id']] = rhs

        def val(x):
            return x.v if isinstance(x, _Cell) else x

        def hook(m, c):
            k = c['k']
            n = c.get('n') or callee(c).split('::')[-1]
            if k == 'MCall':
                o = m.ev(c['obj']) if c.get('obj') is not None and strip_casts(c['obj']).get('k') != 'This' else None
                if isinstance(o, tuple) and o and o[0] == 'LIST':
                    if n == 'getLength':
                        return len(o[1])
                    if n == 'item':
                        i = m.ev(c['args'][0])
                        if not (0 <= i < len(o[1])):
                            raise _U('item(%d) of a list of %d' % (i, len(o[1])))
                        return ('NODE', o[1][i])
                if isinstance(o, _Cell):
                    if n == 'get':
                        return o
                    if n == 'clear':
                        o.v = ''; return 0
                return NotImplemented
            if k == 'OpCall' and c['op'] == '()':
                f = m.ev(c['args'][0])
                args = [m.ev(x) for x in c['args'][1:]]
                if f == 'CMP':
                    x, y = val(args[0]), val(args[1])
                    return int(OPS[op](x, y))
                if f == 'VALFN':
                    node = args[0]
                    v = node[1] if isinstance(node, tuple) else node
                    if len(args) == 2 and isinstance(args[1], _Cell):
                        args[1].v += v
                        return 0
                    return v
            if k == 'Ctor':
                if 'GetCachedString' in (c.get('cls') or ''):
                    return _Cell()
                if len(c.get('args', [])) == 1:
                    return m.ev(c['args'][0])
            if k == 'OpCall' and c['op'] == '*' and len(c['args']) == 1:
                return m.ev(c['args'][0])
            if k in ('Call', 'MCall') and 'DoubleSupport' in (c.get('fn') or ''):
                xs = [val(m.ev(x)) for x in c['args']]
                if n == 'isNaN':
                    return int(xs[0] != xs[0])
                if n == 'isPositiveInfinity':
                    return int(xs[0] == float('inf'))
                if n == 'isNegativeInfinity':
                    return int(xs[0] == float('-inf'))
                table = {'equal': '==', 'notEqual': '!=', 'lessThan': '<', 'lessThanOrEqual': '<=', 'greaterThan': '>', 'greaterThanOrEqual': '>='}
                if n in table:
                    return int(OPS[table[n]](xs[0], xs[1]))
            if k == 'MCall' and n in ('empty', 'length'):
                v = val(m.ev(c['obj']))
                if isinstance(v, str):
                    return int(v == '') if n == 'empty' else len(v)
            return NotImplemented
        m = Machine(env, call_hook=hook)
        m.fuel = 2000
        return m.call(a['body'])
    n_k = 0
    for kname, kind in (('doCompareNumber', 'num'), ('doCompareString', 'str'), ('doCompareNodeSets', 'sets')):
        insts = facts.asts_t(kname, must=False)
        insts = [x for x in insts if x['file'].endswith('XObject.cpp')]
        if not insts:
            raise AnalysisBroken('%s has no instantiation in XObject.cpp' % kname)
        a = insts[0]
        n_k += 1
        dom = [nan, 1.0, 2.0] if kind == 'num' else ['a', 'b']
        ops = list(OPS) if kind == 'num' else ['==', '!=', '<', '>']
        bad = 0
        for op in ops:
            for ln in range(0, 3):
                for nodes in itertools.product(dom, repeat=ln):
                    rhss = [list(x) for l2 in range(0, 3) for x in itertools.product(dom, repeat=l2)] if kind == 'sets' else dom
                    for rhs in rhss:
                        try:
                            got = run_kernel(a, [list(nodes)] + ([rhs] if kind == 'sets' else []), rhs, op, kind)
                        except _U as u:
                            raise AnalysisBroken('%s outside the interpreted subset: %s' % (kname, u))
                        if kind == 'sets':
                            want = any(OPS[op](x, y) for x in nodes for y in rhs)
                        else:
                            want = any(OPS[op](x, rhs) for x in nodes)
                        site = '%s: {%s} %s %s' % (kname, ', '.join(str(x) for x in nodes), op, rhs)
                        if bool(got) == want:
                            r.ok(site)
                        else:
                            bad += 1
                            if bad <= 2:
                                r.violation(site, 'the kernel yields %s, XPath 1.0 §3.4 requires %s ("true iff some node makes the comparison true")' % (bool(got), want), common.file_line(a))
                            else:
                                r.instances += 1
    return r


_run_c02_22 = run


def run(res, facts, tier):
    _run_c02_22(res, facts, tier)
    r12_nodeset_kernels(res, facts)


_run_c02_23 = run


def run(res, facts, tier):
    _run_c02_23(res, facts, tier)
    from . import c02_str
    c02_str.run_rule(res, facts, tier)


_run_c02_24 = run


def run(res, facts, tier):
    _run_c02_24(res, facts, tier)
    from . import c02_parse
    c02_parse.run_rule(res, facts, tier)


_run_c02_25 = run


def run(res, facts, tier):
    _run_c02_25(res, facts, tier)
    from . import c02_parse
    c02_parse.run_tokenizer_rule(res, facts, tier)


_run_c02_26 = run


def run(res, facts, tier):
    _run_c02_26(res, facts, tier)
    from . import c02_num
    c02_num.run_rule(res, facts, tier)


_run_c02_27 = run


def run(res, facts, tier):
    _run_c02_27(res, facts, tier)
    from . import c02_axes
    c02_axes.run_rule(res, facts, tier)


_run_c02_28 = run


def run(res, facts, tier):
    _run_c02_28(res, facts, tier)
    from . import c02_path
    c02_path.run_rule(res, facts, tier)


_run_c02_29 = run


def run(res, facts, tier):
    _run_c02_29(res, facts, tier)
    from . import c02_expr
    c02_expr.run_rule(res, facts, tier)
    from . import c02_nsaxis
    c02_nsaxis.run_rule(res, facts, tier)
