"""C10-R14 / C01-R15 — what a stylesheet element makes of one attribute does not depend on where another attribute stands.

XML attributes have no order (XML 1.0 3.1; the XSLT data model has an attribute SET): <xsl:template priority="2" match="a"> and <xsl:template match="a" priority="2"> are
the same element.  The constructors of the stylesheet elements walk the attribute list once, with one branch per attribute name.  The rule: inside that loop, the branch of
attribute A reads no member (and no local declared outside the loop) that the branch of another attribute B writes - otherwise A's treatment depends on whether B stood
before it.  Reads after the loop (required-attribute checks, defaults) are free.  One level of calls on this is followed (a getter that returns a member reads it)."""
import re
from ..build import AnalysisBroken
from ..mast import walk, strip_casts, pp, callee
from ..facts import short
from . import common


def attr_chain(loop_body):
    """[(link name, condition, branch)] of the if / else-if chain on the attribute name - equals(aname, <constant>) or a helper that takes aname - plus the final else"""
    stmts = loop_body.get('c', []) if loop_body.get('k') in ('Block', 'Compound') else [loop_body]
    anames = set()
    for st in stmts:
        if st.get('k') == 'Decl':
            for v in st.get('vars', []):
                if v.get('init') is not None and any(y.get('k') == 'MCall' and y.get('n') == 'getName' for y in walk(v['init'])):
                    anames.add(v.get('id'))
    out = []
    for st in stmts:
        cur = st
        links = []
        while cur is not None and cur.get('k') == 'If':
            uses = any(y.get('k') == 'Ref' and y.get('id') in anames and y.get('d') == 'local' for y in walk(cur['cond']))
            names = [y.get('n') for y in walk(cur['cond']) if y.get('k') == 'Ref' and y.get('d') not in ('local', 'param') and y.get('n')]
            if not names:
                names = [y.get('n') for y in walk(cur['cond']) if y.get('k') in ('Call', 'MCall') and y.get('n') not in ('equals',)]
            attr = [n for n in names if n.startswith(('ATTRNAME_', 's_'))]
            links.append((tuple(attr or ['other attributes']) if uses else (), cur['cond'], cur.get('then')))
            cur = cur.get('else')
        if links and links[0][0] and (len(links) >= 2 or cur is not None):
            if cur is not None:
                links.append(((), None, cur))
            out = links
    return out


def _members(e, facts, cls, depth=1):
    """(reads, writes) of members of this and of locals (by id) in e"""
    reads, writes = set(), set()
    if e is None:
        return reads, writes
    lhs_nodes = set()
    for y in walk(e):
        k = y.get('k')
        if k == 'Bin' and (y.get('op') == '=' or (y.get('op') or '').endswith('=') and y.get('op') not in ('==', '!=', '<=', '>=')):
            t = strip_casts(y['lhs'])
            key = _key(t)
            if key:
                writes.add(key)
                if y.get('op') == '=':
                    lhs_nodes.add(id(t))
                else:
                    reads.add(key)
        elif k == 'Un' and y.get('op') in ('++', '--', 'post++', 'post--', '++post', '--post'):
            key = _key(strip_casts(y.get('e')))
            if key:
                writes.add(key); reads.add(key)
        elif k == 'MCall':
            o = strip_casts(y.get('obj'))
            key = _key(o)
            if key and key[0] == 'm':
                # a member that is an aggregate: setX / getX address its part X
                nm = y.get('n') or ''
                part = re.sub(r'^(set|get|is)', '', nm)
                sub = ('m', key[1] + '.' + part) if part != nm else key
                (reads if y.get('const') else writes).add(sub)
                lhs_nodes.add(id(o))
            elif key and not y.get('const'):
                writes.add(key)
            if o is not None and o.get('k') == 'This' and depth > 0 and y.get('usr'):
                b = facts.ast(y['usr'])
                if b is not None and b.get('body') is not None:
                    r2, w2 = _members(b['body'], facts, cls, depth - 1)
                    reads |= {x for x in r2 if x[0] == 'm'}
                    writes |= {x for x in w2 if x[0] == 'm'}
    for y in walk(e):
        if id(y) in lhs_nodes:
            continue
        key = _key(y)
        if key:
            reads.add(key)
    return reads, writes


def _key(t):
    if t is None:
        return None
    if t.get('k') == 'Member' and (t.get('obj') or {}).get('k') == 'This':
        return ('m', t.get('m'))
    if t.get('k') == 'Ref' and t.get('d') == 'local':
        return ('l', t.get('id'), t.get('n'))
    return None


def candidates(facts):
    for usr in facts.astidx:
        a = facts.ast(usr)
        if a is None or a.get('body') is None or '/XSLT/' not in a['file'] or not ELEM_CTOR.search(a.get('fq') or ''):
            continue
        for st in walk(a['body']):
            if st.get('k') in ('For', 'While') and st.get('body') is not None:
                ch = attr_chain(st['body'])
                if ch:
                    yield a, st, ch


def run_rule(res, facts, tier, rid='C10-R14', only=lambda a: 'ElemTemplate::ElemTemplate' in (a.get('fq') or ''), floor=4):
    r = res.rule(rid, 'attributes have no order: in the loop over the attribute list, the branch of one attribute reads no member / outer local that the branch of another attribute '
                 'writes (one level of calls on this followed); %s' % ('the constructor of xsl:template (priority, mode, name, match)' if rid == 'C10-R14' else
                                                                      'every attribute loop of the stylesheet elements'), floor=floor)
    n = 0
    for a, loop, chain in candidates(facts):
        if not only(a):
            continue
        n += 1
        fn = short(a.get('fq') or a.get('name') or '?')
        declared_inside = {v.get('id') for y in walk(loop['body']) if y.get('k') == 'Decl' for v in y.get('vars', [])}
        rw = []
        for names, cond, body in chain:
            rd, wr = _members(body, facts, a.get('cls'))
            rc, wc = _members(cond, facts, a.get('cls')) if cond is not None else (set(), set())
            rd |= {x for x in rc if x[0] == 'm'}            # conditions read members, too (the loop variables are theirs anyway)
            rd = {x for x in rd if not (x[0] == 'l' and x[1] in declared_inside)}
            wr = {x for x in wr if not (x[0] == 'l' and x[1] in declared_inside)}
            rw.append((names, rd, wr, body))
        for i, (na, rda, wra, ba) in enumerate(rw):
            for j, (nb, rdb, wrb, bb) in enumerate(rw):
                if i == j or not na and not nb:
                    continue
                both = {x for x in rda if any(_overlap(x, w) for w in wrb)}
                # a local / member that A itself only reads and B writes
                both = {x for x in both if not (x[0] == 'l' and x in wra and x in wrb and x not in _pure_reads(ba))}
                for x in sorted(both, key=str):
                    if x in REVIEWED.get(fn, ()):
                        r.ok('%s: %s reads %s' % (fn, '/'.join(na) or 'else', x[-1]), 'reviewed: ' + REVIEWED[fn][x])
                        continue
                    r.violation('%s: the %s branch reads %s' % (fn, '/'.join(na) or 'last', x[-1]),
                                '%s is written by the %s branch: the treatment of %s depends on whether %s stands before it in the start tag' %
                                (x[-1], '/'.join(nb) or 'last', '/'.join(na) or 'the other attributes', '/'.join(nb) or 'another attribute'), common.file_line(a, ba))
            r.ok('%s: %s' % (fn, '/'.join(na) or 'else'), 'reads %s, writes %s' % (sorted(x[-1] for x in rda), sorted(x[-1] for x in wra)))
    if n == 0:
        raise AnalysisBroken('%s: no attribute loop found' % rid)
    return r


def _overlap(a, b):
    if a[0] != b[0]:
        return False
    if a[0] == 'l':
        return a == b
    return a[1] == b[1] or a[1].startswith(b[1] + '.') or b[1].startswith(a[1] + '.')


def _pure_reads(body):
    rd = set()
    lhs = set()
    for y in walk(body):
        if y.get('k') == 'Bin' and y.get('op') == '=':
            lhs.add(id(strip_casts(y['lhs'])))
    for y in walk(body):
        if id(y) not in lhs and _key(y):
            rd.add(_key(y))
    return rd


REVIEWED = {}
ELEM_CTOR = re.compile(r'::Elem\w+::\w+$')      # the constructors of the stylesheet elements; xsl:output / xsl:stylesheet are handled by StylesheetRoot / StylesheetHandler



def run_c01_rule(res, facts, tier):
    return run_rule(res, facts, tier, 'C01-R15', only=lambda a: 'ElemTemplate::ElemTemplate' not in (a.get('fq') or ''), floor=60)
