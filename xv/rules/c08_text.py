"""C08-R6 — method=text: FormatterToText::characters / charactersRaw / cdata / ignorableWhitespace interpreted on short strings over {ASCII, LF, CR, Latin-1, beyond Latin-1,
U+FFFF}, for every setting of m_normalize, m_haveEncoding and m_maxCharacter: what reaches the writer is the string itself (on a platform whose line end is LF no character
is replaced), each character once and in order; the markup events (startElement, endElement, comment, processingInstruction) write nothing."""
import itertools
from ..build import AnalysisBroken
from ..mast import Machine, Unsupported, callee, strip_casts, pp
from ..facts import NS
from . import common


class Arr:
    def __init__(self, items):
        self.items = items


class TMachine(Machine):
    def __init__(self, world, env):
        super().__init__(env, call_hook=world.hook)
        self.world = world
        self.fuel = 2000

    def ev(self, e):
        if e['k'] == 'Index':
            b = self.ev(e['b'])
            if isinstance(b, Arr):
                i = int(self.ev(e['i']))
                if not (0 <= i < len(b.items)):
                    raise Unsupported('read of character %d of %d' % (i, len(b.items)))
                return b.items[i]
        return super().ev(e)


class World:
    def __init__(self, facts):
        self.facts = facts
        self.sink = []
        self.depth = 0

    def hook(self, m, c):
        k = c['k']
        n = c.get('n') or callee(c).split('::')[-1]
        if n == '__assert_fail':
            raise Unsupported('assertion fails')
        if k == 'MCall':
            o = strip_casts(c.get('obj')) if c.get('obj') is not None else None
            if n == 'write' and o is not None and o.get('k') == 'Member' and o.get('m') == 'm_writer':
                a = [m.ev(x) for x in c['args']]
                if len(a) == 1:
                    self.sink.append(a[0] if isinstance(a[0], int) else ('?', a[0]))
                elif len(a) == 3 and isinstance(a[0], Arr):
                    st, ln = int(a[1]), int(a[2])
                    if st < 0 or st + ln > len(a[0].items):
                        raise Unsupported('write beyond the character array')
                    self.sink.extend(a[0].items[st:st + ln])
                elif len(a) == 3:
                    self.sink.append(('newline', a[0]))
                else:
                    raise Unsupported('writer call ' + pp(c)[:60])
                return 0
            if o is None or o.get('k') == 'This':
                a = self.facts.ast(c['usr']) if c.get('usr') else None
                if (a is None or a.get('body') is None) and c.get('virt'):
                    cands = self.facts.asts('FormatterToText::' + n, must=False)
                    cands = [x for x in cands if x.get('body') is not None and len(x['params']) == len(c.get('args', []))]
                    a = cands[0] if len(cands) == 1 else None
                if a is not None and a.get('body') is not None:
                    self.depth += 1
                    if self.depth > 6:
                        raise Unsupported('depth')
                    try:
                        env = {p['id']: m.ev(x) for p, x in zip(a['params'], c.get('args', []))}
                        env.update({k2: v for k2, v in m.env.items() if isinstance(k2, str) and k2.startswith('.')})
                        return TMachine(self, env).call(a['body'])
                    finally:
                        self.depth -= 1
        return NotImplemented


ALPHA = (0x78, 0x0A, 0x0D, 0xE9, 0x3A9, 0xFFFF)
NAME = {0x78: 'x', 0x0A: 'LF', 0x0D: 'CR', 0xE9: 'U+00E9', 0x3A9: 'U+03A9', 0xFFFF: 'U+FFFF'}


def run_rule(res, facts, tier):
    r = res.rule('C08-R6', 'method=text: FormatterToText character events interpreted on every string of up to 3 characters over {x, LF, CR, U+00E9, U+03A9, U+FFFF} for every setting '
                 'of m_normalize, m_haveEncoding and m_maxCharacter in {0x7F, 0xFF, 0xFFFF}: the writer receives the string itself, each character once, in order; markup events '
                 'write nothing', floor=2000)
    w = World(facts)

    def pick(name, nparams):
        c = [a for a in facts.asts('FormatterToText::' + name, must=False) if a.get('body') is not None and len(a['params']) == nparams]
        if len(c) != 1:
            raise AnalysisBroken('FormatterToText::%s/%d: %d bodies' % (name, nparams, len(c)))
        return c[0]
    fns = {'characters': pick('characters', 2), 'charactersRaw': pick('charactersRaw', 2), 'cdata': pick('cdata', 2)}
    maxlen = 3
    strings = [()]
    for n in range(1, maxlen + 1):
        strings += list(itertools.product(ALPHA, repeat=n))
    reported = 0
    for fname, a in fns.items():
        for norm, enc, mx in itertools.product((0, 1), (0, 1), (0x7F, 0xFF, 0xFFFF)):
            if fname != 'characters' and (norm, enc) != (1, 1):
                continue
            for s in strings:
                w.sink = []
                env = {a['params'][0]['id']: Arr(list(s)), a['params'][1]['id']: len(s), '.m_normalize': norm, '.m_haveEncoding': enc, '.m_maxCharacter': mx,
                       '.m_writer': 'W', '.m_handleIgnorableWhitespace': 1, '.m_newlineString': 'NL', '.m_newlineStringLength': 1}
                site = '%s(%s) normalize=%d encoding=%d max=0x%X' % (fname, ' '.join(NAME[c] for c in s), norm, enc, mx)
                try:
                    TMachine(w, env).call(a['body'])
                    got = list(w.sink)
                except Unsupported as u:
                    raise AnalysisBroken('FormatterToText::%s outside the interpreted subset on %s: %s' % (fname, site, u))
                if got == list(s):
                    r.ok(site, '%d characters' % len(s))
                else:
                    reported += 1
                    if reported <= 3:
                        r.violation(site, 'the writer receives %s, the text of the result tree is %s' % (
                            ' '.join(NAME.get(c, repr(c)) if isinstance(c, int) else repr(c) for c in got) or '(nothing)', ' '.join(NAME[c] for c in s)),
                            common.file_line(a))
                    else:
                        r.instances += 1
    # markup events write nothing
    for name, np in (('startElement', 2), ('endElement', 1), ('comment', 1), ('processingInstruction', 2), ('startDocument', 0), ('endDocument', 0)):
        c = [a for a in facts.asts('FormatterToText::' + name, must=False) if a.get('body') is not None and len(a['params']) == np]
        if len(c) != 1:
            raise AnalysisBroken('FormatterToText::%s: %d bodies' % (name, len(c)))
        writes = [x for x in __import__('xv.mast', fromlist=['calls']).calls(c[0]['body']) if (x.get('n') or '') in ('write', 'characters', 'charactersRaw', 'accumContent')]
        site = 'FormatterToText::%s' % name
        if writes and name not in ('endDocument',):
            r.violation(site, 'a markup event writes to the text output (%s)' % pp(writes[0])[:80], common.file_line(c[0], writes[0]))
        else:
            r.ok(site, 'writes no character')
    return r
