"""C08 — output options change only the lexical form: indent/non-indent serializer twins, the indent helper writes only white space,
HTML element properties table (DESIGN.md §3)."""
import collections, re
from ..build import AnalysisBroken
from ..mast import walk, calls, callee, strip_casts, pp
from ..facts import short, NS
from . import common, tables
from .c04 import serializer_instantiations, writer_family

HTML_VOID = {'area', 'base', 'basefont', 'br', 'col', 'frame', 'hr', 'img', 'input', 'isindex', 'link', 'meta', 'param'}   # HTML 4.01: declared EMPTY
HTML_RAW = {'script', 'style'}   # CDATA content model


def r1_twins(res, facts):
    r = res.rule('C08-R1', 'for each (writer, XML version) the indenting and the non-indenting FormatterToXMLUnicode instantiation differ in the IndentHandler argument only', floor=6)
    groups = collections.defaultdict(list)
    for name, ta in serializer_instantiations(facts):
        groups[tuple(ta[:3] + [ta[4]])].append(ta[3])
    for key, inds in sorted(groups.items()):
        site = 'FormatterToXMLUnicode<%s, %s, %s>' % (writer_family(key[0]), key[2].split('::')[-1], key[3].split('::')[-1])
        kinds = sorted(i.split('<')[0] for i in inds)
        if kinds == ['XalanDummyIndentWriter', 'XalanIndentWriter']:
            r.ok(site, 'indenting and non-indenting twin')
        else:
            r.violation(site, 'indent handlers %s: the indent option would select a serializer that differs in more than indentation' % kinds, None)
    return r


def r2_indent_writer(res, facts):
    r = res.rule('C08-R2', 'XalanIndentWriter reaches the output only through its two functors, which write spaces and the newline string: indentation cannot emit anything else', floor=4)
    n = 0
    for k in facts.astidx:
        f = facts.F.get(k)
        if not f or f.get('clsq') != 'xalanc_1_12::XalanIndentWriter' or f.get('kind') != 'method':
            continue
        a = facts.ast(k)
        n += 1
        bad = []
        for c in calls(a['body']):
            cls = short(c.get('cls') or '')
            if c['k'] in ('MCall', 'OpCall') and ('Writer' in cls) and not cls.startswith(('XalanFormatterWriter::WhiteSpaceWriterFunctor', 'XalanFormatterWriter::NewLineWriterFunctor', 'XalanIndentWriter', 'XalanVector')):
                bad.append(callee(c))
        site = 'XalanIndentWriter::%s' % f['name'].split('::')[-1]
        if bad:
            r.violation(site, 'writes through %s instead of the white-space / newline functors' % bad[0], common.file_line(a))
        else:
            r.ok(site)
    if n < 4:
        raise AnalysisBroken('only %d XalanIndentWriter methods instantiated' % n)
    for q, what in (('XalanFormatterWriter::WhiteSpaceWriterFunctor::operator()', 'charSpace'), ('XalanFormatterWriter::NewLineWriterFunctor::operator()', 'm_newlineString')):
        asts = facts.asts_t(q)
        for a in asts[:1]:
            ws = [c for c in calls(a['body']) if c.get('n') in ('write', 'outputNewline', 'writeSafe')]
            okc = [c for c in ws if c['args'] and (strip_casts(c['args'][0]) or {}).get('k') in ('Ref', 'Member') and (strip_casts(c['args'][0]).get('n') or strip_casts(c['args'][0]).get('m')) == what]
            site = q.split('::')[-2]
            if ws and len(okc) == len(ws):
                r.ok(site, 'writes only %s' % what)
            else:
                r.violation(site, 'functor writes something other than %s: %s' % (what, [pp(c)[:50] for c in ws if c not in okc]), common.file_line(a))
    return r


def flag_value(cell):
    if isinstance(cell, int):
        return cell
    if isinstance(cell, dict) and 'v' in cell:
        return cell['v']
    return None


def r3_html_table(res, facts):
    r = res.rule('C08-R3', 'XalanHTMLElementsProperties::s_elementProperties is strictly sorted under compareIgnoreCaseASCII (its binary search), every attribute list is sorted and terminated '
                 '(linear search with early exit), exactly the 13 void elements of HTML 4.01 carry EMPTY, script and style carry RAW', floor=100)
    tables.check_docompare_shape(facts)
    cmp_el = tables.comparator_of(facts, 'XalanHTMLElementsProperties::findProperties', {'compare', 'compareIgnoreCaseASCII'})
    if cmp_el != 'compareIgnoreCaseASCII':
        raise AnalysisBroken('element search uses %s' % cmp_el)
    t = facts.table('XalanHTMLElementsProperties::s_elementProperties')
    flags = {n.split('::')[-1]: v for n, v in facts.enumconst.items() if '::XalanHTMLElementsProperties::' in n}
    if 'EMPTY' not in flags or 'RAW' not in flags:
        raise AnalysisBroken('EMPTY / RAW flags not found')
    rows = []
    for row in t['val']:
        name = tables.as_string(facts, row[0])
        fl = flag_value(row[1])
        attrs = []
        terminated = False
        for arow in row[2]:
            if arow == '<filler>':
                terminated = True   # zero-filled remainder of a fixed-size array
                continue
            an = tables.as_string(facts, arow[0])
            if an == '':
                terminated = True
                break
            attrs.append(an)
        rows.append((name, fl, attrs, terminated))
    loc = t['loc'].replace('/repo/', '')
    names = [x[0] for x in rows]
    # the last row is the dummy returned when nothing is found
    if names and names[-1] == '':
        r.ok('dummy terminator entry last')
        body = rows[:-1]
    else:
        r.violation('s_elementProperties terminator', 'the dummy entry the search returns for unknown elements is not the last row', loc)
        body = rows
    last = facts.table('XalanHTMLElementsProperties::s_lastProperties', must=False)
    tr = tables.TRANSFORMS['compareIgnoreCaseASCII']
    for i in range(1, len(body)):
        a, b = body[i - 1][0], body[i][0]
        if tables.xalan_compare(a, b, tr) < 0:
            r.ok('order %s < %s' % (a, b))
        else:
            r.violation('s_elementProperties order at "%s"' % b, 'entry "%s" does not sort after "%s" under compareIgnoreCaseASCII (length first): the binary search misses it' % (b, a), loc)
    for name, fl, attrs, terminated in body:
        for i in range(1, len(attrs)):
            if tables.xalan_compare(attrs[i - 1], attrs[i], tr) >= 0:
                r.violation('attributes of %s at "%s"' % (name, attrs[i]), 'attribute "%s" does not sort after "%s": the early-exit linear search stops before it' % (attrs[i], attrs[i - 1]), loc)
        if not terminated:
            r.violation('attributes of %s terminator' % name, 'attribute list is not terminated by the dummy entry', loc)
        else:
            r.ok('attributes of %s sorted and terminated (%d)' % (name, len(attrs)))
    got_void = {n.lower() for n, fl, a, t_ in body if fl is not None and fl & flags['EMPTY']}
    for e in sorted(HTML_VOID | got_void):
        site = 'EMPTY flag of <%s>' % e
        if (e in HTML_VOID) == (e in got_void):
            r.ok(site)
        elif e in HTML_VOID:
            r.violation(site, 'HTML 4.01 declares <%s> EMPTY, the table does not (or lacks the element): an end tag would be written' % e, loc)
        else:
            r.violation(site, 'table marks <%s> EMPTY, HTML 4.01 does not: its content / end tag would be dropped' % e, loc)
    got_raw = {n.lower() for n, fl, a, t_ in body if fl is not None and fl & flags['RAW']}
    for e in sorted(HTML_RAW | got_raw):
        site = 'RAW flag of <%s>' % e
        if (e in HTML_RAW) == (e in got_raw):
            r.ok(site)
        else:
            r.violation(site, '<%s>: RAW (unescaped CDATA content) is %s in the table, HTML 4.01 says %s' % (e, e in got_raw, e in HTML_RAW), loc)
    return r


def run(res, facts, tier):
    r1_twins(res, facts)
    r2_indent_writer(res, facts)
    r3_html_table(res, facts)
    from . import c08_indent
    c08_indent.run(res, facts, tier)
    from . import c08_html
    c08_html.run(res, facts, tier)
    res.assume('C08: which HTML elements are block / inline is taken from the event, not from content models; script / style / pre content, the META tag, URL escaping and tree equality of the outputs are behavioural and not decided')


_run_c08_prev_text = run


def run(res, facts, tier):
    _run_c08_prev_text(res, facts, tier)
    from . import c08_text
    c08_text.run_rule(res, facts, tier)


_run_c08_prev_repr = run


def run(res, facts, tier):
    _run_c08_prev_repr(res, facts, tier)
    from . import c04_repr
    c04_repr.run_c08_rule(res, facts, tier)


_run_c08_prev_surrogate = run


def run(res, facts, tier):
    _run_c08_prev_surrogate(res, facts, tier)
    from . import c08_surrogate
    c08_surrogate.run_rule(res, facts, tier)
    from . import c08_url
    c08_url.run_rule(res, facts, tier)
    from . import c08_transcode
    c08_transcode.run_rule(res, facts, tier)
    from . import c04_pairs
    c04_pairs.run_c08_rule(res, facts, tier)
    from . import c08_htmlns
    c08_htmlns.run_rule(res, facts, tier)
