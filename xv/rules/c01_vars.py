"""C01-R8 — the variables stack by interpretation: the scoping laws of XSLT 1.0 11.5 / 11.6.

VariablesStack (push, pop, pushContextMarker, popContextMarker, pushElementFrame, popElementFrame, pushVariable, pushParams, findEntry / findXObject, the StackEntry
constructors) is interpreted from the parsed program on scripts of operations that mirror how the instructions use it (C01-R5 / R6 decide that they do):

  global frame:  pushContextMarker; pushVariable(g = G) ...; markGlobalStackFrame
  template:      pushContextMarker; pushParams([p = P ...]);  then inside: pushElementFrame(e); [param p declared -> pushVariable(p = value found by getParamVariable)];
                 pushVariable(v = V, e); ... ; popElementFrame;   popContextMarker

and these laws are checked after every script:
  L1  a binding is visible after it is pushed, in its own frame, and an inner binding of the same name shadows it until the inner element frame is popped;
  L2  after pushContextMarker the caller's local bindings and its passed parameters are invisible, the global ones stay visible; after popContextMarker they are back;
  L3  a passed parameter is found by getParamVariable and is NOT a variable (getVariable falls through to the global of that name, or to "not found");
  L4  popElementFrame / popContextMarker restore the stack exactly (size and entries) to what it was at the matching push;
  L5  a global variable is evaluated on first reference, wherever that happens: its defining expression sees the global bindings only - never a local variable or a
      parameter of the template that happens to reference it first - the value is kept for later references, and the stack is otherwise as it was.
For L5 the variable element is a model object whose getValue() looks one name up through the interpreted findXObject of the same stack (what evaluating '$x' does);
the execution context's pushContextMarker / popContextMarker are the stack's own (StylesheetExecutionContextDefault forwards them)."""
import itertools
from ..build import AnalysisBroken
from ..mast import Unsupported, callee, strip_casts, pp
from ..facts import NS
from ..omach import OMachine, Obj, Vec, It, Fault
from . import common


class Reported(Exception):
    """the stack reports an error through the execution context (which throws)"""


class VWorld:
    construct_objects = True

    def __init__(self, facts):
        self.facts = facts
        self.depth = 0
        self.calls = 0
        self.max_calls = 6000
        self._dtors = {}
        self.stack = None
        self.F = {}
        self.cnl = ['the node list of the referring instruction']

    def tables(self, q):
        return None

    def glob(self, name):
        return ('GLOBAL', name.split('::')[-1])

    def allow(self, body, c):
        return body['file'].endswith(('VariablesStack.cpp', 'VariablesStack.hpp'))

    def destructor(self, o):
        """body of the destructor of a local object, when the parsed program has one (EnsurePop, CommitPushParams)"""
        if o.cls == 'cnlguard':
            return lambda g: self.cnl.pop()            # ContextNodeListPushAndPop: the list is the context node list while the guard lives
        if o.cls in ('nodelist', 'strguard'):
            return None
        cls = o.cls.split('<')[0]
        if cls not in self._dtors:
            short = cls.split('::')[-1]
            c = [a for a in self.facts.asts(cls.replace(NS, '') + '::~' + short, must=False) if a.get('body') is not None]
            self._dtors[cls] = c[0] if c and self.allow(c[0], None) else None
        return self._dtors[cls]

    def hook(self, m, c):
        k = c['k']
        n = c.get('n') or callee(c).split('::')[-1]
        cls = c.get('cls') or ''
        if k == 'Ctor' and ('BorrowReturnMutableNodeRefList' in cls or 'GetCachedNodeList' in cls):
            return Obj('nodelist', {'items': []})
        if k == 'Ctor' and 'ContextNodeListPushAndPop' in cls and len(c.get('args', [])) == 2:
            lst = m.ev(c['args'][1])
            if not (isinstance(lst, Obj) and lst.cls == 'nodelist'):
                raise Unsupported('ContextNodeListPushAndPop on %r' % (lst,))
            self.cnl.append(lst.fields['items'])
            return Obj('cnlguard', {})
        if k == 'OpCall' and c.get('op') in ('->', '*') and len(c.get('args', [])) == 1:
            v0 = m.ev(c['args'][0])
            if isinstance(v0, Obj) and v0.cls == 'nodelist':
                return v0
        if k == 'MCall':
            tgt = m.target_obj(c)
            if isinstance(tgt, Obj) and tgt.cls == 'nodelist':
                if n == 'addNode':
                    tgt.fields['items'].append(m.ev(c['args'][0])); return 0
                if n in ('setDocumentOrder', 'clear'):
                    return 0
                raise Unsupported('node list method ' + n)
            if tgt == 'ECTX' and n == 'pushContextNodeList':
                lst = m.ev(c['args'][0])
                self.cnl.append(lst.fields['items'] if isinstance(lst, Obj) else lst); return 0
            if tgt == 'ECTX' and n == 'popContextNodeList':
                self.cnl.pop(); return 0
            if tgt == 'ECTX' and n in ('pushContextMarker', 'popContextMarker') and self.stack is not None:
                sub = OMachine(self, {}, self.stack)
                sub.fuel = 6000
                sub.run_body(self.F['marker' if n == 'pushContextMarker' else 'unmarker'], [], self.stack)
                return 0
            if tgt == 'ECTX' and n == 'getRootDocument':
                return 'DOC'
            if tgt == 'ECTX' and n == 'problem':
                raise Reported('problem reported')
            if isinstance(tgt, Obj) and tgt.cls == 'strguard' and n == 'get':
                return ''
            if isinstance(tgt, Obj) and tgt.cls.endswith('ElemVariable'):
                if n == 'getValue':
                    # evaluating the defining expression '$x': one variable reference, resolved by the stack as it is now
                    self.nested = getattr(self, 'nested', 0) + 1
                    if self.nested > 12:
                        self.nested = 0
                        raise Fault('the evaluation of a variable asks for itself again and again (12 nested evaluations): the C++ stack overflows')
                    sub = OMachine(self, {}, self.stack)
                    sub.fuel = 6000
                    v = sub.run_body(self.F['find'], [tgt.fields['refers'], 'ECTX', 0, 1, 0], self.stack)
                    got = v[1] if isinstance(v, tuple) and v and v[0] == 'VAL' else None
                    self.nested -= 1
                    tgt.fields['evaluations'] += 1
                    tgt.fields['seen_node_list'] = list(self.cnl[-1]) if isinstance(self.cnl[-1], list) else self.cnl[-1]
                    tgt.fields['seen_node'] = m.ev(c['args'][1]) if len(c.get('args', [])) > 1 else None
                    return ('VAL', 'f(%s)' % got)
                if n == 'getXPath':
                    return 'XPATH' if tgt.fields['select'] else 0
                if n in ('getLocator',):
                    return 0
                if n == 'getNameAttribute':
                    return tgt.fields['name']
            if isinstance(tgt, str) and n == 'equals':
                return int(tgt == m.ev(c['args'][0]))
            if isinstance(tgt, tuple) and tgt and tgt[0] == 'VAL':
                if n == 'null':
                    return 0
                if n == 'get':
                    return tgt
            if tgt is None and n == 'null':
                return 1
            if n == 'getMemoryManager':
                return 'MM'
        if k == 'Ctor' and 'GetCachedString' in cls:
            return Obj('strguard', {})
        if k == 'Call' and n == 'getMessage':
            return ''
        if k == 'Ctor':
            if 'XObjectPtr' in cls:
                a = c.get('args', [])
                if not a:
                    return None
                v = m.ev(a[0])
                return None if isinstance(v, int) and v == 0 else v
            if 'XalanDOMString' in cls:
                return ''
            if 'EnsurePop' in cls or 'CommitPushParams' in cls or 'PushParamFunctor' in cls:
                return NotImplemented
        if k == 'Call' and n == 'find' and len(c['args']) == 3:
            b, e, x = (m.ev(y) for y in c['args'])
            if isinstance(b, It) and isinstance(e, It):
                for i in range(b.i, e.i):
                    if b.vec.items[i] is x:
                        return It(b.vec, i)
                return e
        if k == 'Call' and n == 'for_each' and len(c['args']) == 3:
            b, e, fn = (m.ev(x) for x in c['args'])
            body = None
            for cand in self.facts.asts('VariablesStack::PushParamFunctor::operator()', must=False):
                body = cand
            if body is None:
                raise Unsupported('PushParamFunctor::operator() has no body')
            for i in range(b.i, e.i):
                m.run_body(body, [b.vec.items[i]], fn)
            return fn
        if k == 'OpCall' and c.get('op') in ('==', '!=') and len(c['args']) == 2:
            a, b = m.ev(c['args'][0]), m.ev(c['args'][1])
            if isinstance(a, Obj) and isinstance(b, Obj):
                same = a.fields == b.fields
                return int(same == (c['op'] == '=='))
        return NotImplemented


def run_rule(res, facts, tier):
    r = res.rule('C01-R8', 'the variables stack by interpretation: VariablesStack and its StackEntry constructors run on scripts mirroring global set-up, template calls with passed '
                 'parameters and nested element frames; the scoping laws hold - visibility and shadowing inside a frame, a context marker hides the caller\'s locals and '
                 'parameters but not the globals, a passed parameter is not a variable until declared, the pops restore the stack exactly, a global variable evaluated on first '
                 'reference sees the global bindings only', floor=200)
    w = VWorld(facts)
    K = NS + 'VariablesStack'

    def fn(name, nparams, pred=lambda a: True):
        c = [a for a in facts.asts('VariablesStack::' + name, must=False) if a.get('body') is not None and len(a['params']) == nparams and pred(a)]
        if len(c) != 1:
            raise AnalysisBroken('VariablesStack::%s/%d: %d bodies' % (name, nparams, len(c)))
        return c[0]
    F = {
        'marker': fn('pushContextMarker', 0), 'unmarker': fn('popContextMarker', 0), 'frame': fn('pushElementFrame', 1), 'unframe': fn('popElementFrame', 0),
        'var': fn('pushVariable', 3, lambda a: 'XObjectPtr' in a['params'][1]['ty']), 'params': fn('pushParams', 1), 'mark': fn('markGlobalStackFrame', 0),
        'find': fn('findXObject', 5),
        'lazy': fn('pushVariable', 3, lambda a: 'ElemVariable' in a['params'][1]['ty']),
    }
    w.F = F
    entry_ctor = [a for a in facts.asts('VariablesStack::ParamsVectorEntry::ParamsVectorEntry', must=False) if a.get('body') is not None]

    def new_stack():
        return Obj(K, {'m_stack': Vec([]), 'm_globalStackFrameIndex': 2 ** 32 - 1, 'm_globalStackFrameMarked': 0, 'm_currentStackFrameIndex': 0, 'm_guardStack': Vec([]),
                       'm_elementFrameStack': Vec([])})

    def call(st, name, *args):
        w.calls = 0
        w.stack = st
        m = OMachine(w, {}, st)
        m.fuel = 6000
        return m.run_body(F[name], list(args), st)

    def lookup(st, name, as_param):
        w.calls = 0
        w.stack = st
        m = OMachine(w, {}, st)
        m.fuel = 6000
        # findXObject(name, executionContext, fIsParam, fSearchGlobalSpace, fNameFound&)
        a = F['find']
        env = {}
        sub = OMachine(w, env, st)
        sub.fuel = 6000
        v = sub.run_body(a, [name, 'ECTX', int(as_param), int(not as_param), 0], st)
        return v[1] if isinstance(v, tuple) and v and v[0] == 'VAL' else None

    def snapshot(st):
        return [dict(e.fields) if isinstance(e, Obj) else e for e in st.fields['m_stack'].items]

    def entry(name, value):
        return Obj(NS + 'VariablesStack::ParamsVectorEntry', {'m_qname': name, 'm_value': ('VAL', value), 'm_variable': 0})

    checks = []

    def expect(what, got, want):
        checks.append((what, got, want))
    n_scripts = 0
    for declare_p, pass_p, global_p, inner_shadow in itertools.product((0, 1), repeat=4):
        try:
            st = new_stack()
            label = 'declare p=%d pass p=%d global p=%d inner shadow=%d' % (declare_p, pass_p, global_p, inner_shadow)
            checks = []
            # global frame
            call(st, 'marker')
            call(st, 'frame', 'ROOT')
            call(st, 'var', 'g', ('VAL', 'G'), 'ROOT')
            if global_p:
                call(st, 'var', 'p', ('VAL', 'GP'), 'ROOT')
            call(st, 'mark')
            # caller template with a local
            call(st, 'frame', 'E0')
            call(st, 'var', 'v', ('VAL', 'V0'), 'E0')
            expect('L1 caller sees its local', lookup(st, 'v', False), 'V0')
            expect('L1 caller sees the global', lookup(st, 'g', False), 'G')
            before_call = snapshot(st)
            # call: marker + params
            call(st, 'marker')
            call(st, 'params', Vec([entry('p', 'P')] if pass_p else []))
            expect('L2 caller\'s local hidden in the called template', lookup(st, 'v', False), None)
            expect('L2 global visible in the called template', lookup(st, 'g', False), 'G')
            expect('L3 passed parameter found by getParamVariable', lookup(st, 'p', True), 'P' if pass_p else None)
            expect('L3 undeclared parameter is not a variable', lookup(st, 'p', False), 'GP' if global_p else None)
            call(st, 'frame', 'E1')
            if declare_p:
                found = lookup(st, 'p', True)
                call(st, 'var', 'p', ('VAL', found if found is not None else 'DEF'), 'E1')
                expect('L1 declared parameter visible', lookup(st, 'p', False), 'P' if pass_p else 'DEF')
            call(st, 'var', 'v', ('VAL', 'V1'), 'E1')
            expect('L1 callee local', lookup(st, 'v', False), 'V1')
            inner_before = snapshot(st)
            if inner_shadow:
                call(st, 'frame', 'E2')
                call(st, 'var', 'v', ('VAL', 'V2'), 'E2')
                expect('L1 inner binding shadows', lookup(st, 'v', False), 'V2')
                call(st, 'unframe')
                expect('L4 popElementFrame restores the stack', snapshot(st), inner_before)
                expect('L1 outer binding back after the inner frame', lookup(st, 'v', False), 'V1')
            call(st, 'unframe')
            # xsl:apply-templates pushes its parameters once for all selected nodes: the template of the next node does not declare p
            call(st, 'frame', 'E3')
            expect('L3 the template of the next node, which does not declare p, sees the global / nothing', lookup(st, 'p', False), 'GP' if global_p else None)
            expect('L3 ... while the parameter is still there for a template that asks for it', lookup(st, 'p', True), 'P' if pass_p else None)
            call(st, 'unframe')
            call(st, 'unmarker')
            expect('L4 popContextMarker restores the stack', snapshot(st), before_call)
            expect('L2 caller\'s local back after the call', lookup(st, 'v', False), 'V0')
            expect('L3 parameter gone after the call', lookup(st, 'p', False), 'GP' if global_p else None)
            # a second call that does not declare p, with the same parameters still on the caller's side: nothing leaks
            call(st, 'marker')
            call(st, 'params', Vec([entry('p', 'P2')] if pass_p else []))
            expect('L3 second template that does not declare p sees the global / nothing', lookup(st, 'p', False), 'GP' if global_p else None)
            call(st, 'unmarker')
        except Fault as f:
            r.violation('variables stack, script [%s]' % label, 'the stack misbehaves: %s' % f, common.file_line(F['find'])); continue
        except Unsupported as u:
            raise AnalysisBroken('VariablesStack outside the interpreted subset on [%s]: %s' % (label, u))
        n_scripts += 1
        for what, got, want in checks:
            if got == want:
                r.ok('%s [%s]' % (what, label))
            else:
                r.violation('variables stack: %s' % what, '[%s] yields %r, XSLT 1.0 11.5 / 11.6 require %r' % (label, got if not isinstance(got, list) else 'a different stack', want if not isinstance(want, list) else 'the stack as it was'),
                            common.file_line(F['find']))
    # L5: lazily evaluated globals.  The model forwards the execution context's marker calls to the stack: that is what the parsed program must do
    from ..mast import calls as _calls
    for nm in ('pushContextMarker', 'popContextMarker'):
        bodies = [a for a in facts.asts('StylesheetExecutionContextDefault::' + nm, must=False) if a.get('body') is not None]
        if len(bodies) != 1:
            raise AnalysisBroken('StylesheetExecutionContextDefault::%s: %d bodies' % (nm, len(bodies)))
        fw = [c for c in _calls(bodies[0]['body']) if (c.get('n') or '') == nm and 'VariablesStack' in (c.get('fn') or c.get('cls') or '')]
        if len(fw) == 1:
            r.ok('StylesheetExecutionContextDefault::%s forwards to the variables stack' % nm)
        else:
            r.violation('StylesheetExecutionContextDefault::%s' % nm, 'does not forward to VariablesStack::%s exactly once (%d calls)' % (nm, len(fw)), common.file_line(bodies[0]))
    for select, local_kind, nested, global_first in itertools.product((0, 1), ('variable', 'parameter', 'both'), (0, 1), (0, 1)):
        label = 'global h defined by %s in terms of $x; first referenced %swhere a %s x is in scope%s' % (
            'select' if select else 'content', 'in a nested element frame ' if nested else '', local_kind if local_kind != 'both' else 'variable and a parameter',
            '; x declared after h' if not global_first else '')
        checks = []
        try:
            st = new_stack()
            var = Obj(NS + 'ElemVariable', {'name': 'h', 'refers': 'x', 'select': select, 'evaluations': 0})
            call(st, 'marker')
            call(st, 'frame', 'ROOT')
            if global_first:
                call(st, 'var', 'x', ('VAL', 'GX'), 'ROOT')
            call(st, 'lazy', 'h', var, 'ROOT')
            if not global_first:
                call(st, 'var', 'x', ('VAL', 'GX'), 'ROOT')
            call(st, 'mark')
            call(st, 'marker')
            call(st, 'params', Vec([entry('x', 'PX')] if local_kind in ('parameter', 'both') else []))
            call(st, 'frame', 'E1')
            if local_kind == 'parameter':
                call(st, 'var', 'x', ('VAL', 'PX'), 'E1')      # the declared parameter
            if local_kind in ('variable', 'both'):
                call(st, 'var', 'x', ('VAL', 'LX'), 'E1')
            if nested:
                call(st, 'frame', 'E2')
                call(st, 'var', 'y', ('VAL', 'LY'), 'E2')
            before = snapshot(st)
            first = lookup(st, 'h', False)
            expect('L5 value of the global on first reference', first, 'f(GX)')
            after = snapshot(st)
            same_but_value = len(before) == len(after) and all(
                b == a or (isinstance(b, dict) and isinstance(a, dict) and {k: v for k, v in b.items() if k != 'm_value'} == {k: v for k, v in a.items() if k != 'm_value'})
                for b, a in zip(before, after))
            expect('L5 the stack after the evaluation is the stack before it, but for the kept value', same_but_value, True)
            expect('L5 the global is evaluated with the root as current node, in a node list of just the root (11.4)', (var.fields.get('seen_node'), var.fields.get('seen_node_list')), ('DOC', ['DOC']))
            expect('L5 the node list of the referring instruction is back afterwards', list(w.cnl), ['the node list of the referring instruction'])
            expect('L5 the local x is still what the template sees', lookup(st, 'x', False), 'LX' if local_kind in ('variable', 'both') else 'PX')
            second = lookup(st, 'h', False)
            expect('L5 second reference gives the kept value', (second, var.fields['evaluations']), ('f(GX)', 1))
        except Fault as f:
            r.violation('variables stack, script [%s]' % label, 'the stack misbehaves: %s' % f, common.file_line(F['find'])); continue
        except Unsupported as u:
            raise AnalysisBroken('VariablesStack outside the interpreted subset on [%s]: %s' % (label, u))
        n_scripts += 1
        for what, got, want in checks:
            if got == want:
                r.ok('%s [%s]' % (what, label))
            else:
                r.violation('variables stack: %s' % what.split(' [')[0], '[%s] yields %r, XSLT 1.0 11.4 requires %r' % (label, got, want), common.file_line(F['find']))
    return r



def run_cycle_rule(res, facts, tier):
    """C03-R13: circular definitions of global variables are reported, not followed.  XSLT 1.0 11.4 makes them an error; evaluated on demand they are an unbounded recursion -
    a stack overflow, SIGSEGV - unless findXObject recognises that the variable it is asked for is already being evaluated, at ANY depth of the evaluation."""
    r = res.rule('C03-R13', 'circular definitions of global variables (length 1, 2, 3 and 4, referenced from a template with and without locals) end in a reported error: '
                 'VariablesStack::findXObject interpreted with variable elements whose evaluation asks the same stack for the next variable of the cycle', floor=8)
    w = VWorld(facts)
    K = NS + 'VariablesStack'

    def fn(name, nparams, pred=lambda a: True):
        c = [a for a in facts.asts('VariablesStack::' + name, must=False) if a.get('body') is not None and len(a['params']) == nparams and pred(a)]
        if len(c) != 1:
            raise AnalysisBroken('VariablesStack::%s/%d: %d bodies' % (name, nparams, len(c)))
        return c[0]
    F = {'marker': fn('pushContextMarker', 0), 'unmarker': fn('popContextMarker', 0), 'frame': fn('pushElementFrame', 1), 'unframe': fn('popElementFrame', 0),
         'var': fn('pushVariable', 3, lambda a: 'XObjectPtr' in a['params'][1]['ty']), 'mark': fn('markGlobalStackFrame', 0), 'find': fn('findXObject', 5),
         'lazy': fn('pushVariable', 3, lambda a: 'ElemVariable' in a['params'][1]['ty'])}
    w.F = F

    def call(st, name, *args):
        w.calls = 0
        w.stack = st
        m = OMachine(w, {}, st)
        m.fuel = 6000
        return m.run_body(F[name], list(args), st)
    for length, with_local in itertools.product((1, 2, 3, 4), (0, 1)):
        names = ['v%d' % i for i in range(length)]
        label = 'cycle %s -> %s%s' % (' -> '.join(names), names[0], ', first referenced where a local is in scope' if with_local else '')
        st = Obj(K, {'m_stack': Vec([]), 'm_globalStackFrameIndex': 2 ** 32 - 1, 'm_globalStackFrameMarked': 0, 'm_currentStackFrameIndex': 0, 'm_guardStack': Vec([]),
                     'm_elementFrameStack': Vec([])})
        w.nested = 0
        outcome = None
        try:
            call(st, 'marker')
            call(st, 'frame', 'ROOT')
            for i, nm in enumerate(names):
                call(st, 'lazy', nm, Obj(NS + 'ElemVariable', {'name': nm, 'refers': names[(i + 1) % length], 'select': 1, 'evaluations': 0}), 'ROOT')
            call(st, 'mark')
            call(st, 'marker')
            call(st, 'frame', 'E1')
            if with_local:
                call(st, 'var', 'x', ('VAL', 'LX'), 'E1')
            w.calls = 0
            w.stack = st
            m = OMachine(w, {}, st)
            m.fuel = 20000
            m.run_body(F['find'], [names[0], 'ECTX', 0, 1, 0], st)
            outcome = 'a value'
        except Reported:
            outcome = 'reported'
        except Fault as f:
            outcome = 'FAULT: %s' % f
        except Unsupported as u:
            raise AnalysisBroken('VariablesStack outside the interpreted subset on [%s]: %s' % (label, u))
        if outcome == 'reported':
            r.ok(label, 'an error is reported')
        else:
            r.violation('circular variable definition of length %d' % length, '[%s] is not reported as an error: %s' % (label, outcome), common.file_line(F['find']))
    return r
