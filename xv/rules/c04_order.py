"""C04-R8 — the byte order of UTF-16 output agrees with the name of the encoding.

XalanOutputStream has a pass-through (m_writeAsUTF16: the code units of the buffer are written as they lie in memory) and XalanTranscodingServices has a
copying transcoder (XalanUTF16Transcoder); both produce the byte order of the machine.  XalanOutputStream::setOutputEncoding, XalanTranscodingServices::
makeNewTranscoder and getStreamProlog are interpreted for every (encoding name, byte order of the machine) pair: the machine's order may be produced only
for "UTF-16" (then a byte order mark must be written first) and for the variant that names the machine's order (no mark needed); every other encoding
must reach the Xerces transcoder under its own name.  The probe of the machine's byte order is modelled as a read of the first byte of an integer."""
from ..build import AnalysisBroken
from ..mast import Machine, Unsupported, callee, strip_casts, pp
from ..facts import NS, short
from . import common

NAMES = {'s_utf16String': 'UTF-16', 's_utf16LEString': 'UTF-16LE', 's_utf16BEString': 'UTF-16BE', 's_utf8String': 'UTF-8', 's_utf32String': 'UTF-32',
         's_iso88591String': 'ISO-8859-1', 's_asciiString': 'ASCII', 's_usASCIIString': 'US-ASCII', 's_windows1250String': 'WINDOWS-1250', 's_shiftJISString': 'SHIFT_JIS'}


class OMachine(Machine):
    def __init__(self, world, env):
        super().__init__(env, call_hook=world.hook, global_hook=world.glob)
        self.world = world
        self.fuel = 500

    def ev(self, e):
        k = e['k']
        if k == 'Un' and e['op'] == '*':
            inner = e['e']
            while inner.get('k') == 'Cast' and inner.get('ck') not in ('BitCast',):
                inner = inner['e']
            if inner.get('k') == 'Cast' and inner.get('ck') == 'BitCast' and 'char *' in (inner.get('to') or '') and 'char16_t' in (inner.get('from') or ''):
                t = strip_casts(inner['e'])
                if t.get('k') == 'Un' and t['op'] == '&':
                    v = self.ev(t['e'])
                    if isinstance(v, int):
                        self.world.probed = True
                        return (v & 0xff) if self.world.little else ((v >> 8) & 0xff)
                raise Unsupported('byte read through a cast: ' + pp(e)[:80])
        if k == 'Ref' and e.get('d') == 'local' and e.get('id') in self.env:
            return self.env[e['id']]
        return super().ev(e)


class World:
    def __init__(self, facts, enc, little):
        self.facts, self.enc, self.little = facts, enc, little
        self.probed = False
        self.events = []
        self.depth = 0
        self.OK = facts.enumconst.get(NS + 'XalanTranscodingServices::OK')
        self.XOK = None

    def glob(self, name):
        n = name.split('::')[-1]
        if n in NAMES:
            return ('NAME', NAMES[n])
        if n == 's_UTF16ByteOrderMark':
            return ('PROLOG', 'BOM16')
        if n in ('s_dummyByteOrderMark',):
            return ('PROLOG', '')
        if n == 's_UTF8ByteOrderMark':
            return ('PROLOG', 'BOM8')
        if n == 'fgTransService':
            return 'XERCES'
        return NotImplemented

    def call_body(self, m, a, c, this=None):
        args = []
        for x in c.get('args', []):
            t = strip_casts(x)
            if t.get('k') == 'Ref' and t.get('d') == 'local' and t['id'] not in m.env:
                args.append(None)
            else:
                args.append(m.ev(x))
        env = {p['id']: v for p, v in zip(a['params'], args)}
        env.update({k: v for k, v in m.env.items() if isinstance(k, str) and k.startswith('.')})
        self.depth += 1
        if self.depth > 8:
            raise Unsupported('call depth')
        try:
            sub = OMachine(self, env)
            r = sub.call(a['body'])
            for p, x in zip(a['params'], c.get('args', [])):
                ty = p.get('ty', '')
                if ty.rstrip().endswith('&') and not ty.lstrip().startswith('const'):
                    t = strip_casts(x)
                    if t.get('k') == 'Ref' and t.get('d') in ('local', 'param') and p['id'] in sub.env:
                        m.env[t['id']] = sub.env[p['id']]
            for k2 in list(sub.env):
                if isinstance(k2, str) and k2.startswith('.'):
                    m.env[k2] = sub.env[k2]
            return r
        finally:
            self.depth -= 1

    def hook(self, m, c):
        k = c['k']
        n = c.get('n') or callee(c).split('::')[-1]
        cls = c.get('cls') or ''
        if n == '__assert_fail':
            raise Unsupported('assertion fails: ' + (pp(c['args'][0])[:80] if c.get('args') else ''))
        if n == 'compareIgnoreCaseASCII':
            a, b = m.ev(c['args'][0]), m.ev(c['args'][1])
            na = a[1] if isinstance(a, tuple) else a
            nb = b[1] if isinstance(b, tuple) else b
            return 0 if str(na).upper() == str(nb).upper() else 1
        if n == 'c_str' and k == 'MCall':
            return m.ev(c['obj'])
        if n in ('flushBuffer', 'destroyTranscoder', 'getMemoryManager'):
            return 0
        if n == 'create' and 'XalanUTF16Transcoder' in (c.get('fn') or cls):
            self.events.append(('own-transcoder', None))
            return 'OWN'
        if n == 'makeNewTranscoderFor':
            nm = m.ev(c['args'][0])
            self.events.append(('xerces', nm[1] if isinstance(nm, tuple) else nm))
            t = strip_casts(c['args'][1])
            if t.get('k') == 'Ref':
                m.env[t['id']] = 'XERCES_OK'
            return 'XERCES_T'
        if n == 'translateCode':
            return self.OK
        if n == 'create' and 'XalanToXercesTranscoderWrapper' in (c.get('fn') or cls):
            return 'WRAPPED'
        if n == 'length' and k == 'Call':
            v = m.ev(c['args'][0])
            if isinstance(v, tuple) and v[0] == 'PROLOG':
                return 2 if v[1] == 'BOM16' else (3 if v[1] == 'BOM8' else 0)
        if n == 'write' and k == 'MCall':
            v = m.ev(c['args'][0])
            self.events.append(('prolog', v[1] if isinstance(v, tuple) else v))
            return 0
        if k == 'OpCall' and c.get('op') == '=' and len(c['args']) == 2:
            v = m.ev(c['args'][1])
            m.assign(strip_casts(c['args'][0]), v)
            return v
        if k == 'Ctor':
            if len(c.get('args', [])) == 1:
                return m.ev(c['args'][0])
            return 'OBJ'
        if c.get('usr'):
            a = self.facts.ast(c['usr'])
            if a is not None and a.get('body') is not None and ('XalanTranscodingServices' in (c.get('fn') or '') or 'XalanOutputStream' in (c.get('fn') or '')):
                return self.call_body(m, a, c)
        return NotImplemented


def run_rule(res, facts, tier):
    r = res.rule('C04-R8', 'UTF-16 byte order: XalanOutputStream::setOutputEncoding with XalanTranscodingServices::makeNewTranscoder / getStreamProlog interpreted for every '
                 '(encoding name, byte order of the machine): code units are copied as they lie in memory only for "UTF-16" after a byte order mark and for the '
                 'variant that names the machine\'s order; every other encoding reaches the Xerces transcoder under its own name', floor=16)
    a = facts.asts('XalanOutputStream::setOutputEncoding')
    if len(a) != 1:
        raise AnalysisBroken('XalanOutputStream::setOutputEncoding: %d bodies' % len(a))
    a = a[0]
    if not facts.asts('XalanTranscodingServices::makeNewTranscoder', must=False):
        raise AnalysisBroken('XalanTranscodingServices::makeNewTranscoder has no body')
    probed = False
    for little in (True, False):
        for enc in ('UTF-16', 'utf-16', 'UTF-16LE', 'UTF-16BE', 'utf-16be', 'Utf-16Le', 'ISO-8859-1', 'UTF-32', 'EUC-JP'):
            w = World(facts, enc, little)
            env = {a['params'][0]['id']: ('NAME', enc), '.m_writeAsUTF16': 0, '.m_transcoder': 0, '.m_transcoderBlockSize': 512, '.m_encoding': ''}
            m = OMachine(w, env)
            site = 'encoding "%s" on a %s-endian machine' % (enc, 'little' if little else 'big')
            try:
                m.call(a['body'])
            except Unsupported as u:
                raise AnalysisBroken('setOutputEncoding outside the interpreted subset for %s: %s' % (site, u))
            probed = probed or w.probed
            through = bool(m.env.get('.m_writeAsUTF16'))
            own = any(e[0] == 'own-transcoder' for e in w.events)
            xer = [e[1] for e in w.events if e[0] == 'xerces']
            bom = any(e[0] == 'prolog' and e[1] == 'BOM16' for e in w.events)
            U = enc.upper()
            native_ok = U == 'UTF-16' or U == ('UTF-16LE' if little else 'UTF-16BE')
            what = None
            if (through or own) and not native_ok:
                what = 'the code units are written in the byte order of the machine (%s), which is not the order the encoding names' % (
                    'pass-through' if through else 'XalanUTF16Transcoder')
            elif not through and not own and not (xer and str(xer[0]).upper() == U):
                what = 'neither the pass-through nor a transcoder for this encoding is installed (transcoders asked for: %s)' % xer
            elif U == 'UTF-16' and not bom:
                what = 'UTF-16 without a stated byte order is written without a byte order mark'
            elif U != 'UTF-16' and bom:
                what = 'a UTF-16 byte order mark is written into %s output' % enc
            if what:
                r.violation(site, what, common.file_line(a))
            else:
                r.ok(site, 'pass-through' if through else ('own transcoder' if own else 'Xerces transcoder %s' % xer[0]))
    if not probed:
        r.note('no byte-order probe was evaluated: the decision does not depend on the machine')
    return r
