"""C08-R9 — URL attributes of the html method: the escaped value does not depend on the encoding.

XSLT 1.0 16.2 / HTML 4.0 B.2.1: non-ASCII characters in URI attribute values are escaped as the %HH of their UTF-8 bytes - whatever the encoding of the document.
FormatterToHTML::writeAttrURI is interpreted for strings with characters from every UTF-8 length class (and a surrogate pair), with the largest character of the output
encoding (m_maxCharacter) at 0x7F, 0xFF and 0xFFFF and with URL escaping on and off.  With escaping on, the %HH bytes must be the UTF-8 of the character and the same for
every encoding; with escaping off the value written (raw or as a numeric reference) must decode to the string.  The output encoding is a presentational option: the
attribute value a browser sees must not change with it."""
from ..build import AnalysisBroken
from ..mast import Unsupported, callee, strip_casts
from ..facts import NS
from ..omach import OMachine, Obj, Fault
from . import common

STRINGS = ['a b', 'caf\xe9.html', '\x7f', '\x80', '\xff', 'Ā', '߿', 'ࠀ', '€', '￮', '😀', 'x"y&z', '\xfc\xf1\xa7', '日本']


class UWorld:
    def __init__(self, facts):
        self.facts = facts
        self.depth = 0; self.calls = 0; self.max_calls = 4000
        self.out = []

    def tables(self, q):
        return None

    def glob(self, name):
        return ('GLOBAL', name.split('::')[-1])

    def allow(self, body, c):
        # helpers of the file that are not members (a computation moved out of writeAttrURI) are followed; members are modelled by the hooks
        return body['file'].endswith('XMLSupport/FormatterToHTML.cpp') and not body.get('cls')

    def destructor(self, o):
        return None

    def hook(self, m, c):
        n = c.get('n') or callee(c).split('::')[-1]
        a = c.get('args', [])
        if n == 'accumContent' and len(a) == 1:
            v = m.ev(a[0])
            if isinstance(v, int):
                self.out.append(('RAW', v)); return 0
            if isinstance(v, str):
                for ch in v:
                    self.out.append(('RAW', ord(ch)))
                return 0
            raise Unsupported('accumContent(%r)' % (v,))
        if n == 'accumHexNumber':
            self.out.append(('HEX', int(m.ev(a[0])))); return 0
        if n == 'accumDefaultEntity':
            self.out.append(('ENT', int(m.ev(a[0])))); return 1
        if n == 'writeNumberedEntityReference':
            self.out.append(('REF', int(m.ev(a[0])))); return 0
        if n.startswith('throwInvalid'):
            raise Fault('reports an invalid surrogate')
        if n == 'NumberToDOMString':
            return str(int(m.ev(a[0])))
        if n == 'clear':
            return 0
        if n == 'isUTF16Surrogate':
            return int(0xD800 <= m.ev(a[0]) <= 0xDFFF)
        if n == 'isUTF16HighSurrogate':
            return int(0xD800 <= m.ev(a[0]) <= 0xDBFF)
        if n == 'isUTF16LowSurrogate':
            return int(0xDC00 <= m.ev(a[0]) <= 0xDFFF)
        return NotImplemented


def utf16(s):
    out = []
    for ch in s:
        o = ord(ch)
        if o > 0xFFFF:
            o -= 0x10000
            out += [0xD800 + (o >> 10), 0xDC00 + (o & 0x3FF)]
        else:
            out.append(o)
    return ''.join(chr(x) for x in out)


def value_seen(out):
    """what a user agent gets: (the attribute value after the parser resolved references, with %HH left as they are) -> bytes of the URL after unescaping %HH and encoding the
    rest as UTF-8 (B.2.1)"""
    units = []
    i = 0
    b = bytearray()
    pend = []

    def flush():
        if pend:
            s = ''.join(chr(x) for x in pend)
            b.extend(s.encode('utf-16', 'surrogatepass').decode('utf-16', 'replace').encode('utf-8'))
            del pend[:]
    txt = []
    for e in out:
        if e[0] == 'HEX':
            flush(); b.append(e[1] & 0xFF)
        elif e[0] == 'ENT':
            pend.append(e[1])
        elif e[0] == 'REF':
            if 0xD800 <= e[1] <= 0xDFFF:
                flush(); b.extend(b'<reference to the surrogate %d>' % e[1])
            else:
                flush(); b.extend(chr(e[1]).encode('utf-8'))
        else:
            txt.append(e[1]); pend.append(e[1])
    flush()
    # numeric references written with RAW characters: &#NNN;
    s = bytes(b)
    import re
    s = re.sub(rb'&#(\d+);', lambda mm: (b'<reference to the surrogate %d>' % int(mm.group(1))) if 0xD800 <= int(mm.group(1)) <= 0xDFFF else chr(int(mm.group(1))).encode('utf-8'), s)
    # %HH written character by character (the quote: %22) is an escape like the others
    s = re.sub(rb'%([0-9A-Fa-f]{2})', lambda mm: bytes([int(mm.group(1), 16)]), s)
    return s


def run_rule(res, facts, tier):
    r = res.rule('C08-R9', 'URL attributes of the html method: FormatterToHTML::writeAttrURI interpreted on characters of every UTF-8 length class with m_maxCharacter 0x7F / 0xFF / 0xFFFF: '
                 'with URL escaping on, the %HH written are the UTF-8 bytes of the character whatever the encoding (XSLT 1.0 16.2, HTML 4.0 B.2.1); with escaping off the value '
                 'decodes to the string; the URL a user agent derives is the same for every encoding', floor=80)
    cands = [a for a in facts.asts('FormatterToHTML::writeAttrURI', must=False) if a.get('body') is not None]
    if len(cands) != 1:
        raise AnalysisBroken('FormatterToHTML::writeAttrURI: %d bodies' % len(cands))
    fn = cands[0]
    kfields = {f['n'] for f in (facts.K.get(NS + 'FormatterToHTML') or {}).get('fields', [])} | {f['n'] for f in (facts.K.get(NS + 'FormatterToXML') or {}).get('fields', [])}
    if 'm_maxCharacter' not in kfields or 'm_escapeURLs' not in kfields:
        raise AnalysisBroken('FormatterToHTML no longer has m_maxCharacter / m_escapeURLs')
    for s in STRINGS:
        u = utf16(s)
        want = s.encode('utf-8', 'surrogatepass')
        for esc in (1, 0):
            seen = {}
            for maxc in (0x7F, 0xFF, 0xFFFF):
                w = UWorld(facts)
                this = Obj(NS + 'FormatterToHTML', {'m_escapeURLs': esc, 'm_maxCharacter': maxc, 'm_stringBuffer': ''})
                for f in kfields:
                    this.fields.setdefault(f, 0)
                site = 'href="%s", escaping %s, largest character of the encoding U+%04X' % (s.encode('unicode_escape').decode(), 'on' if esc else 'off', maxc)
                try:
                    m = OMachine(w, {}, this)
                    m.fuel = 20000
                    m.run_body(fn, [u, len(u)], this)
                except Fault as f:
                    r.violation('URL attribute: fault', '%s: %s' % (site, f), common.file_line(fn)); continue
                except Unsupported as x:
                    raise AnalysisBroken('FormatterToHTML::writeAttrURI outside the interpreted subset (%s): %s' % (site, x))
                got = value_seen(w.out)
                seen[maxc] = (got, w.out)
                hexed = bytes(e[1] & 0xFF for e in w.out if e[0] == 'HEX')
                bad = None
                if got != want:
                    bad = 'the URL a user agent derives is %r, the bytes of the value are %r' % (got, want)
                elif esc:
                    raw_high = [e[1] for e in w.out if e[0] == 'RAW' and e[1] > 126]
                    if raw_high:
                        bad = 'U+%04X is written unescaped although URL escaping is on' % raw_high[0]
                if bad:
                    r.violation('URL attribute: %s' % ('escaped bytes are not the UTF-8 of the character' if esc else 'value written does not decode to the string'),
                                '%s: %s (written: %s)' % (site, bad, brief(w.out)), common.file_line(fn))
                else:
                    r.ok(site, brief(w.out))
            if esc and len({v[0] for v in seen.values()}) > 1:
                r.violation('URL attribute: the escaped value depends on the encoding', 'href="%s": %s' % (s.encode('unicode_escape').decode(), {hex(k): brief(v[1]) for k, v in seen.items()}), common.file_line(fn))
    return r


def brief(out):
    s = ''
    for e in out:
        s += '%%%02X' % (e[1] & 0xFF) if e[0] == 'HEX' else (chr(e[1]) if 32 <= e[1] < 127 else '\\u%04x' % e[1]) if e[0] == 'RAW' else '&#%d;' % e[1]
    return s
