"""C10 — template conflict resolution: the default-priority constants and the classification that assigns them (DESIGN.md §3)."""
from ..build import AnalysisBroken
from ..mast import walk, calls, callee, strip_casts, Machine, Unsupported, pp
from ..facts import short
from . import common, c10_lists

PRIORITY = {'eMatchScoreNone': float('-inf'), 'eMatchScoreNodeTest': -0.5, 'eMatchScoreNSWild': -0.25, 'eMatchScoreQName': 0.0, 'eMatchScoreOther': 0.5}


def run(res, facts, tier):
    r1 = res.rule('C10-R1', 'XPath::getMatchScoreValue maps the five match-score classes to the XSLT 1.0 §5.5 default priorities (-0.5, -0.25, 0, 0.5; none = -infinity)', floor=5)
    sc = {n.split('::')[-1]: v for n, v in facts.enumconst.items() if '::XPath::eMatchScore' in n}
    if set(sc) != set(PRIORITY):
        raise AnalysisBroken('eMatchScore enumerators changed: %s' % sorted(sc))
    a = facts.asts('XPath::getMatchScoreValue')[0]

    def hook(m, c):
        if c.get('n') == 'getNegativeInfinity':
            return float('-inf')
        return NotImplemented
    for name, want in PRIORITY.items():
        m = Machine({a['params'][0]['id']: sc[name]}, call_hook=hook)
        try:
            got = m.call(a['body'])
        except Unsupported as u:
            raise AnalysisBroken('getMatchScoreValue outside the interpreted subset: %s' % u)
        site = 'getMatchScoreValue(%s)' % name
        if got == want:
            r1.ok(site, str(got))
        else:
            r1.violation(site, 'returns %s, XSLT 1.0 §5.5 requires %s' % (got, want), common.file_line(a))

    r2 = res.rule('C10-R2', "XPath::getTargetData classifies the last step of each alternative as XSLT 1.0 §5.5 prescribes "
                  "(node-type tests and * -> -0.5, ns:* -> -0.25, QName and processing-instruction('x') -> 0, several steps or a predicate -> 0.5), "
                  'decided by interpreting the function over the finite domain of step kind x node test x name shape x step count x predicate', floor=100)
    a = facts.asts('XPath::getTargetData')[0]
    # the block executed for the last step: if (nextOp == eENDOP) { ... }
    # the locals by what they are, not by what they are called:  nextOp == eENDOP  <-  nextOp = getOpCodeMapValue(nextStepPos)  <-  nextStepPos = getNextOpCodePosition(opPos);
    # stepCount is the counter incremented in the loop around that test
    decl = {}
    for x in walk(a['body']):
        if x['k'] == 'Decl':
            for v in x['vars']:
                decl[v['id']] = v
    block = None
    ids = {}

    def ref_local(e):
        e = strip_casts(e)
        return e if e is not None and e.get('k') == 'Ref' and e.get('d') == 'local' and e.get('id') in decl else None
    for x in walk(a['body']):
        if x['k'] == 'If':
            c = strip_casts(x['cond'])
            if c.get('k') == 'Bin' and c['op'] == '==':
                for u, v in ((c['lhs'], c['rhs']), (c['rhs'], c['lhs'])):
                    if ref_local(u) is not None and pp(strip_casts(v)).endswith('eENDOP'):
                        ini = decl[ref_local(u)['id']].get('init')
                        cs = [cc for cc in calls(ini)] if ini is not None else []
                        if cs and (cs[0].get('n') or '') == 'getOpCodeMapValue' and ref_local(cs[0]['args'][0]) is not None:
                            nsp = ref_local(cs[0]['args'][0])['id']
                            ini2 = decl[nsp].get('init')
                            cs2 = [cc for cc in calls(ini2)] if ini2 is not None else []
                            if cs2 and (cs2[0].get('n') or '') == 'getNextOpCodePosition' and ref_local(cs2[0]['args'][0]) is not None:
                                block = x['then']
                                ids['nextStepPos'] = nsp
                                ids['opPos'] = ref_local(cs2[0]['args'][0])['id']
    if block is None:
        raise AnalysisBroken('getTargetData: last-step block (the operation after the step is eENDOP) not found')
    for x in walk(a['body']):
        if x['k'] in ('While', 'For', 'Do') and any(y is block for y in walk(x)):
            for y in walk(x):
                if y.get('k') == 'Un' and y.get('op') == '++' and ref_local(y['e']) is not None and not any(z is y for z in walk(block)):
                    ids.setdefault('stepCount', ref_local(y['e'])['id'])
    op = {n.split('::')[-1]: v for n, v in facts.enumconst.items() if '::XPathExpression::e' in n}
    for need in ('opPos', 'stepCount', 'nextStepPos'):
        if need not in ids:
            raise AnalysisBroken('getTargetData: the local that holds %s was not found' % need)
    steps = ['eMATCH_IMMEDIATE_ANCESTOR', 'eMATCH_ANY_ANCESTOR', 'eMATCH_ATTRIBUTE']
    tests = []
    for t in ('eNODETYPE_COMMENT', 'eNODETYPE_TEXT', 'eNODETYPE_NODE'):
        tests.append((t, 1, 0, 0, 'eMatchScoreNodeTest'))
    tests.append(('eNODETYPE_PI', 1, 0, 0, 'eMatchScoreNodeTest'))
    tests.append(('eNODETYPE_PI', 2, 0, 0, 'eMatchScoreQName'))
    for local, ns, want in ((0, 0, 'eMatchScoreNodeTest'), (0, 'NS', 'eMatchScoreNSWild'), ('NAME', 0, 'eMatchScoreQName'), ('NAME', 'NS', 'eMatchScoreQName'),
                            ('ANY', 0, 'eMatchScoreNodeTest'), ('ANY', 'NS', 'eMatchScoreNSWild'), (0, 'ANY', 'eMatchScoreNodeTest')):
        tests.append(('eNODENAME', 0, local, ns, want))
    heads = [(s, t) for s in steps for t in tests] + [('eFROM_ROOT', ('eNODETYPE_ROOT', 0, 0, 0, 'eMatchScoreOther')), ('eOP_FUNCTION', ('eNODETYPE_NODE', 0, 0, 0, 'eMatchScoreOther'))]
    for stepType, (tok, argLen, local, ns, want0) in heads:
        for stepCount in (1, 2):
            for pred in (False, True):
                want = want0 if (stepCount == 1 and not pred) else 'eMatchScoreOther'
                pushed = []

                def hook(m, c, stepType=stepType, tok=tok, argLen=argLen, local=local, ns=ns):
                    n = c.get('n') or ''
                    if n == 'getOpCodeMapValue':
                        pos = m.ev(c['args'][0])
                        return op[stepType] if pos == 100 else (op[tok] if pos == 103 else 0)
                    if n == 'getOpCodeArgumentLength':
                        return argLen
                    if n == 'getStringFromTokenQueue':
                        pos = m.ev(c['args'][1])
                        return ns if pos == 104 else (local if pos == 105 else 0)
                    if n == 'c_str':
                        return m.ev(c['obj'])
                    if n == 'push_back':
                        ctor = strip_casts(c['args'][0])
                        while ctor.get('k') == 'Ctor' and len(ctor['args']) == 1:
                            ctor = strip_casts(ctor['args'][0])
                        pushed.append([m.ev(x) for x in ctor['args']])
                        return 0
                    return NotImplemented

                def ghook(q):
                    if 'PSEUDONAME_' in q:
                        return q.split('PSEUDONAME_')[-1]
                    return NotImplemented
                m = Machine({ids['opPos']: 100, ids['stepCount']: stepCount, ids['nextStepPos']: 110 if pred else 106}, call_hook=hook, global_hook=ghook)
                try:
                    m.exec(block)
                except Unsupported as u:
                    raise AnalysisBroken('getTargetData outside the interpreted subset: %s' % u)
                site = 'getTargetData(%s, %s%s%s, steps=%d, predicate=%s)' % (stepType[1:], tok[1:], '/%d' % argLen if tok.endswith('_PI') else '',
                                                                            ' local=%s ns=%s' % (local, ns) if tok == 'eNODENAME' else '', stepCount, pred)
                if len(pushed) != 1:
                    r2.violation(site, 'pushes %d target entries' % len(pushed), common.file_line(a))
                    continue
                name, score, ttype = pushed[0]
                sname = [k for k, v in sc.items() if v == score]
                if sname and sname[0] == want and name != 0:
                    r2.ok(site, '%s, target "%s"' % (sname[0], name))
                elif name == 0:
                    r2.violation(site, 'target name is null', common.file_line(a))
                else:
                    r2.violation(site, 'classified %s, XSLT 1.0 §5.5 requires %s' % (sname and sname[0], want), common.file_line(a))
    c10_lists.run(res, facts, tier)


_run_c10_prev_builtin = run


def run(res, facts, tier):
    _run_c10_prev_builtin(res, facts, tier)
    from . import c10_builtin
    c10_builtin.run_rule(res, facts, tier)


_run_c10_prev_lookup = run


def run(res, facts, tier):
    _run_c10_prev_lookup(res, facts, tier)
    from . import c10_lookup
    c10_lookup.run_rule(res, facts, tier)
    c10_lookup.run_select_rule(res, facts, tier)


_run_c10_prev_nomatch = run


def run(res, facts, tier):
    _run_c10_prev_nomatch(res, facts, tier)
    from . import c10_builtin
    c10_builtin.run_nomatch_rule(res, facts, tier)
    from . import c10_attrorder
    c10_attrorder.run_rule(res, facts, tier)
