"""C01-R10 / C04-R11 — a copied element carries exactly its own namespace nodes (xsl:copy, xsl:copy-of), by interpretation.

XSLTEngineImpl::copyNamespaceAttributes(src) walks from the source element to the root and offers every xmlns:* attribute to addResultNamespace(.., onlyIfPrefixNotPresent);
both overloads of addResultNamespace are interpreted with it.  Modelled by their contract: the source nodes (element chain with xmlns attributes), the pending attribute
list, the result namespaces stack (declarations of the enclosing result elements plus the level of the element being built), the visited-names vector with find_if.
Universe: chains root > mid > E where each of the three elements declares, for each of the prefixes p and q, nothing, u1 or u2 (729 chains) x an enclosing result scope
that binds p to nothing, u1 or u2.  After the call, for every namespace node of E (XPath 1.0 5.4: the nearest declaration of each prefix) the prefix must be bound to
that URI in the result (declared on the new element or inherited), and the new element must declare nothing that is not a namespace node of E: an ancestor's
declaration that a nearer one overrides must never come through - the copy would be in another namespace, or not namespace-well-formed."""
import itertools
from ..build import AnalysisBroken
from ..mast import Unsupported, callee, strip_casts, pp
from ..facts import NS
from ..omach import OMachine, Obj, Vec, It, Fault
from . import common


class SNode:
    identity = True

    def __init__(self, kind, name, value='', parent=None):
        self.kind, self.name, self.value, self.parent = kind, name, value, parent
        self.attrs = []

    def __repr__(self):
        return '%s(%s)' % (self.kind, self.name)


class AttrMap:
    identity = True

    def __init__(self, owner):
        self.owner = owner


class Reported(Exception):
    """the engine reports an error (or a warning) instead of writing"""


class NSWorld:
    def __init__(self, facts):
        self.facts = facts
        self.depth = 0
        self.calls = 0
        self.max_calls = 4000
        self.T = {k: facts.enumconst.get(NS + 'XalanNode::' + k) for k in ('ELEMENT_NODE', 'ATTRIBUTE_NODE', 'DOCUMENT_NODE')}
        if None in self.T.values():
            raise AnalysisBroken('node type constants not found')
        self.outer = {}
        self.local = {}
        self.pending = []
        self.pending_prefixes = set()

    def tables(self, q):
        return None

    def glob(self, name):
        n = name.split('::')[-1]
        if n == 's_XMLNamespace':
            return 'xmlns'
        if n == 's_XMLNamespaceWithSeparator':
            return 'xmlns:'
        if n == 's_XMLNamespaceWithSeparatorLength':
            return 6
        if n == 's_emptyString':
            return ''
        if n == 'npos':
            return 2 ** 64 - 1
        return ('GLOBAL', n)

    def allow(self, body, c):
        if not body['file'].endswith(('XSLT/XSLTEngineImpl.cpp', 'XSLT/XSLTEngineImpl.hpp')):
            return False
        n = (body.get('fq') or '').split('::')[-1]
        return n in ('copyNamespaceAttributes', 'addResultNamespace', 'getPendingAttributesImpl', 'cloneToResultTree')

    def destructor(self, o):
        return None

    def hook(self, m, c):
        k = c['k']
        n = c.get('n') or callee(c).split('::')[-1]
        cls = c.get('cls') or ''
        if k == 'Ctor':
            if 'GetCachedString' in cls:
                return Obj('guard', {'s': ''})
            if 'FindStringPointerFunctor' in cls:
                v = m.ev(c['args'][0])
                return v if isinstance(v, tuple) and v and v[0] == 'FUNCTOR' else ('FUNCTOR', v)       # (copy construction of the functor)
            return NotImplemented
        if k == 'MCall':
            tgt = m.target_obj(c)
            a = c.get('args', [])
            if isinstance(tgt, Obj) and tgt.cls == 'guard' and n == 'get':
                return ''
            if isinstance(tgt, SNode):
                if n == 'getNodeType':
                    return self.T[{'elem': 'ELEMENT_NODE', 'attr': 'ATTRIBUTE_NODE', 'doc': 'DOCUMENT_NODE'}[tgt.kind]]
                if n == 'getParentNode':
                    return tgt.parent if tgt.parent is not None else 0
                if n == 'getAttributes':
                    return AttrMap(tgt)
                if n == 'getNodeName':
                    return tgt.name
                if n == 'getNodeValue':
                    return tgt.value
                if n == 'getNamespaceURI':
                    return getattr(tgt, 'uri', '')
                raise Unsupported('node method ' + n)
            if isinstance(tgt, AttrMap):
                if n == 'getLength':
                    return len(tgt.owner.attrs)
                if n == 'item':
                    i = int(m.ev(a[0]))
                    return tgt.owner.attrs[i] if 0 <= i < len(tgt.owner.attrs) else 0
            if tgt == 'NSSTACK':
                if n == 'prefixIsPresentLocal':
                    return int(m.ev(a[0]) in self.local)
                raise Unsupported('namespaces stack method ' + n)
            if isinstance(tgt, Obj) and tgt.cls.endswith('XSLTEngineImpl'):
                if n == 'getResultNamespaceForPrefix':
                    p = m.ev(a[0])
                    if p in self.local:
                        return self.local[p]
                    return self.outer.get(p, 0)
                if n == 'addResultAttribute':
                    v = [m.ev(x) for x in a]
                    name, value = v[1], v[2]
                    # what the real addResultAttribute does with a namespace declaration (its body is C01-R3's business): bind the prefix on this element
                    if isinstance(name, str) and name.startswith('xmlns:'):
                        pfx = name[6:]
                        bound = self.local.get(pfx, self.outer.get(pfx))
                        if bound == value:
                            return 0
                        self.local[pfx] = value
                    self.pending.append((name, value))
                    return 0
                if n == 'isElementPending':
                    return 1
                if n == 'isPendingResultPrefix':
                    return int(m.ev(a[0]) in self.pending_prefixes)
                if n == 'reportDuplicateNamespaceNodeError':
                    raise Reported('duplicate namespace node')
                if n == 'warn':
                    raise Reported('warning')
                if n == 'addResultNamespaceDecl':
                    p, u = m.ev(a[0]), m.ev(a[1])
                    self.local[p] = u
                    return 0
                if n in ('getPendingAttributesImpl', 'getPendingAttributes'):
                    return 'PENDING'
            if isinstance(tgt, str) and n in ('length', 'size'):
                return len(tgt)
        if k == 'Call':
            a = c.get('args', [])
            if n == 'equals' and len(a) == 2:
                return int(m.ev(a[0]) == m.ev(a[1]))
            if n == 'indexOf' and len(a) == 2:
                s2, ch = m.ev(a[0]), m.ev(a[1])
                if isinstance(s2, str) and isinstance(ch, int):
                    i = s2.find(chr(ch))
                    return i if i >= 0 else len(s2)
            if n == 'startsWith' and len(a) == 2:
                return int(str(m.ev(a[0])).startswith(str(m.ev(a[1]))))
            if n == 'substring' and len(a) >= 3:
                src, st = m.ev(a[0]), int(m.ev(a[2]))
                en = int(m.ev(a[3])) if len(a) > 3 else len(src)
                if en > len(src) or en < 0:
                    en = len(src)
                m.assign(strip_casts(a[1]), src[st:en])
                return 0
            if n == 'find_if' and len(a) == 3:
                b, e, f = (m.ev(x) for x in a)
                if isinstance(b, It) and isinstance(f, tuple) and f[0] == 'FUNCTOR':
                    for i in range(b.i, e.i):
                        if b.vec.items[i] == f[1]:
                            return It(b.vec, i)
                    return e
        if k == 'OpCall' and c.get('op') == '()' and len(c['args']) == 2:
            f = m.ev(c['args'][0])
            if isinstance(f, tuple) and f and f[0] == 'FUNCTOR':
                return int(m.ev(c['args'][1]) == f[1])         # FindStringPointerFunctor called by hand instead of through find_if
        if k == 'OpCall' and c.get('op') in ('=', '+=') and len(c['args']) == 2:
            t = strip_casts(c['args'][0])
            cur = m.ev_arg(t)
            v = m.ev(c['args'][1])
            if isinstance(v, str) and (cur is None or isinstance(cur, str)):
                nv = v if c['op'] == '=' else (cur or '') + v
                m.assign(t, nv)
                return nv
        if k == 'OpCall' and c.get('op') in ('==', '!=') and len(c['args']) == 2:
            x, y = m.ev(c['args'][0]), m.ev(c['args'][1])
            if isinstance(x, str) and isinstance(y, str):
                return int((x == y) == (c['op'] == '=='))
        return NotImplemented


def run_rule(res, facts, tier, rid='C01-R10'):
    r = res.rule(rid, 'copying an element copies exactly its namespace nodes: copyNamespaceAttributes with both addResultNamespace overloads interpreted on every chain '
                 'root > mid > E whose elements declare p and q as nothing / u1 / u2, under an enclosing result scope binding p to nothing / u1 / u2: every prefix in scope for '
                 'E is bound to the same URI in the result, and the new element declares nothing else (an overridden declaration of an ancestor never comes through)', floor=2000)
    w = NSWorld(facts)
    cands = [a for a in facts.asts('XSLTEngineImpl::copyNamespaceAttributes', must=False) if a.get('body') is not None]
    if len(cands) != 1:
        raise AnalysisBroken('XSLTEngineImpl::copyNamespaceAttributes: %d bodies' % len(cands))
    fn = cands[0]
    kfields = {f['n'] for f in (facts.K.get(NS + 'XSLTEngineImpl') or {}).get('fields', [])}
    choices = (None, 'u1', 'u2')
    reported = {}
    n = 0
    for decl in itertools.product(choices, repeat=6):
        levels = [decl[0:2], decl[2:4], decl[4:6]]            # root, mid, E: (p, q)
        doc = SNode('doc', '#document')
        parent = doc
        chain = []
        for lv in levels:
            e = SNode('elem', 'e', '', parent)
            for prefix, uri in zip(('p', 'q'), lv):
                if uri is not None:
                    e.attrs.append(SNode('attr', 'xmlns:' + prefix, uri, None))
            e.attrs.append(SNode('attr', 'id', 'x', None))
            chain.append(e)
            parent = e
        src = chain[-1]
        in_scope = {}
        for lv in levels:
            for prefix, uri in zip(('p', 'q'), lv):
                if uri is not None:
                    in_scope[prefix] = uri
        for outer_p in choices:
            n += 1
            w.outer = {'p': outer_p} if outer_p else {}
            w.local = {}
            w.pending = []
            w.calls = 0
            this = Obj(NS + 'XSLTEngineImpl', {'m_resultNamespacesStack': 'NSSTACK', 'm_attributeNamesVisited': Vec([]), 'm_executionContext': 'ECTX', 'm_outputContextStack': Vec([1])})
            for f in kfields:
                this.fields.setdefault(f, 0)
            site_desc = 'root %s, mid %s, E %s; enclosing result element binds p to %s' % tuple(
                ['{%s}' % ', '.join('%s=%s' % (p, u) for p, u in zip(('p', 'q'), lv) if u) for lv in levels] + [outer_p or 'nothing'])
            try:
                m = OMachine(w, {}, this)
                m.fuel = 20000
                m.run_body(fn, [src], this)
                err = None
            except Fault as f:
                err = 'FAULT: %s' % f
            except Unsupported as u:
                raise AnalysisBroken('copyNamespaceAttributes outside the interpreted subset (%s): %s' % (site_desc, u))
            problems = []
            if err:
                problems.append(('fault', err))
            else:
                bound = dict(w.outer); bound.update(w.local)
                for prefix, uri in in_scope.items():
                    if bound.get(prefix) != uri:
                        problems.append(('lost', 'prefix %s is bound to %s in the copy, the source element has %s=%s in scope' % (prefix, bound.get(prefix) or 'nothing', prefix, uri)))
                for prefix, uri in w.local.items():
                    if in_scope.get(prefix) != uri:
                        problems.append(('foreign', 'the copy declares %s=%s, which is not a namespace node of the source element (in scope there: %s)' %
                                         (prefix, uri, in_scope.get(prefix) or 'no binding')))
                names = [nm for nm, v in w.pending]
                if len(names) != len(set(names)):
                    problems.append(('duplicate', 'the pending element gets two attributes of the same name: %s' % sorted(names)))
                if this.fields['m_attributeNamesVisited'].items:
                    problems.append(('scratch', 'the visited-names scratch vector is not empty afterwards (%d entries): the next copy skips those names' % len(this.fields['m_attributeNamesVisited'].items)))
            if not problems:
                r.instances += 1
                continue
            kind, what = problems[0]
            reported[kind] = reported.get(kind, 0) + 1
            if reported[kind] <= 1:
                r.violation('copy of an element: namespace nodes (%s)' % {'lost': 'a binding of the source is missing', 'foreign': 'a declaration that is not the source\'s',
                                                                             'duplicate': 'duplicate declaration', 'scratch': 'scratch state left behind', 'fault': 'fault'}[kind],
                            '%s: %s' % (site_desc, what), common.file_line(fn))
            else:
                r.instances += 1
    r.note('%d copies' % n)
    return r


def run_attr_rule(res, facts, tier, rid='C01-R11'):
    """xsl:copy / xsl:copy-of of an attribute node that is in a namespace: the attribute case of cloneToResultTree"""
    r = res.rule(rid, 'copying an attribute that is in a namespace leaves a namespace-well-formed element: the attribute case of XSLTEngineImpl::cloneToResultTree interpreted for '
                 'q:id in urn:q (and an attribute in no namespace) under every combination of the prefix being unbound / bound to urn:q / bound to another URI in the enclosing result '
                 'elements and on the element being built: afterwards the prefix is bound to urn:q where the attribute stands, no attribute name occurs twice - or an error is '
                 'reported, and then only when the element itself declares the prefix for another namespace or uses it in its own name; an element named with the prefix stays in its namespace', floor=25)
    w = NSWorld(facts)
    cands = [a for a in facts.asts('XSLTEngineImpl::cloneToResultTree', must=False) if a.get('body') is not None and len(a['params']) == 6]
    if len(cands) != 1:
        raise AnalysisBroken('XSLTEngineImpl::cloneToResultTree(node, type, ...): %d bodies' % len(cands))
    fn = cands[0]
    kfields = {f['n'] for f in (facts.K.get(NS + 'XSLTEngineImpl') or {}).get('fields', [])}
    choices = (None, 'urn:q', 'urn:other')
    for (aname, auri), outer_q, local_q, elem_uses_q in itertools.product((('q:id', 'urn:q'), ('id', '')), choices, choices, (False, True)):
        if elem_uses_q and outer_q is None and local_q is None:
            continue            # an element named q:f needs q bound somewhere
        attr = SNode('attr', aname, '7', None)
        attr.uri = auri
        w.outer = {'q': outer_q} if outer_q else {}
        w.local = {'q': local_q} if local_q else {}
        w.pending = [('xmlns:q', local_q)] if local_q else []
        w.pending_prefixes = {'q'} if elem_uses_q else set()
        elem_ns_before = (local_q or outer_q) if elem_uses_q else None
        w.calls = 0
        this = Obj(NS + 'XSLTEngineImpl', {'m_resultNamespacesStack': 'NSSTACK', 'm_attributeNamesVisited': Vec([]), 'm_executionContext': 'ECTX', 'm_outputContextStack': Vec([1])})
        for f in kfields:
            this.fields.setdefault(f, 0)
        site = 'copy of the attribute %s%s onto %s that %s, inside elements that %s' % (
            aname, ' (namespace %s)' % auri if auri else ' (no namespace)', 'an element named q:f' if elem_uses_q else 'an element',
            'declares q=%s' % local_q if local_q else 'does not declare q', 'bind q to %s' % outer_q if outer_q else 'do not bind q')
        outcome = None
        try:
            m = OMachine(w, {}, this)
            m.fuel = 20000
            m.run_body(fn, [attr, w.T['ATTRIBUTE_NODE'], 0, 0, 0, 0], this)
        except Reported as x:
            outcome = 'reported: %s' % x
        except Fault as f:
            outcome = 'FAULT: %s' % f
        except Unsupported as u:
            raise AnalysisBroken('cloneToResultTree outside the interpreted subset (%s): %s' % (site, u))
        bound = dict(w.outer); bound.update(w.local)
        names = [nm for nm, v in w.pending]
        conflict = bool(auri) and ((local_q is not None and local_q != auri) or (elem_uses_q and elem_ns_before != auri))
        if outcome is not None and outcome.startswith('FAULT'):
            r.violation(site, outcome, common.file_line(fn))
        elif outcome is not None:
            if conflict:
                r.ok(site, 'an error is reported: the element already declares the prefix for another namespace')
            else:
                r.violation(site, 'an error is reported although the attribute can be represented', common.file_line(fn))
        elif (aname, '7') not in w.pending:
            r.violation(site, 'the attribute is not added', common.file_line(fn))
        elif auri and bound.get('q') != auri:
            r.violation(site, 'the attribute is written as %s but its prefix is %s where it stands: the element is not namespace-well-formed (or the attribute is in another namespace)' %
                        (aname, 'bound to ' + bound['q'] if bound.get('q') else 'not declared'), common.file_line(fn))
        elif elem_uses_q and bound.get('q') != elem_ns_before:
            r.violation(site, 'the element q:f was in the namespace %s and is in %s after the copy: the declaration added for the attribute rebinds the prefix of the element\'s own name' %
                        (elem_ns_before, bound.get('q')), common.file_line(fn))
        elif len(names) != len(set(names)):
            r.violation(site, 'the element gets two attributes of the same name: %s' % sorted(names), common.file_line(fn))
        else:
            r.ok(site, 'bound: %s' % (bound.get('q') or 'nothing'))
    return r


def run_c04_rule(res, facts, tier):
    return run_rule(res, facts, tier, 'C04-R11')


def run_c04_attr_rule(res, facts, tier):
    return run_attr_rule(res, facts, tier, 'C04-R12')
