"""C08-R12 — the html output method treats an element by HTML rules exactly when its expanded name has no namespace.

XSLT 1.0 16.2: the html output method should not output an element differently from the xml output method unless the expanded-name of the element has a null namespace URI.
FormatterToHTML::doPushHasNamespace decides this per element from the prefix resolver.  It is interpreted for unprefixed and prefixed names with the (default) prefix
unbound, bound to a namespace name, and bound to the EMPTY string - which is how xmlns="" is recorded: an element under such an un-declaration is in no namespace and is
an HTML element (script / style content unescaped, <br> without end tag)."""
from ..build import AnalysisBroken
from ..mast import Unsupported, callee, strip_casts
from ..facts import NS
from ..omach import OMachine, Obj, Vec, Fault
from . import common


class HWorld:
    def __init__(self, facts):
        self.facts = facts
        self.depth = 0; self.calls = 0; self.max_calls = 2000
        self.bind = {}

    def tables(self, q):
        return None

    def glob(self, name):
        return '' if name.split('::')[-1] == 's_emptyString' else ('GLOBAL', name.split('::')[-1])

    def allow(self, body, c):
        return False

    def destructor(self, o):
        return None

    def hook(self, m, c):
        k = c['k']
        n = c.get('n') or callee(c).split('::')[-1]
        a = c.get('args', [])
        if k == 'Call' and n == 'length' and a:
            v = m.ev(a[0])
            if isinstance(v, str):
                return len(v)
        if k == 'Call' and n == 'indexOf' and len(a) == 2:
            s2, ch = m.ev(a[0]), m.ev(a[1])
            i = s2.find(chr(ch)) if isinstance(s2, str) and isinstance(ch, int) else -1
            return i if i >= 0 else len(s2)
        if k == 'Call' and n == 'substring' and len(a) >= 3:
            src, st = m.ev(a[0]), int(m.ev(a[2]))
            en = int(m.ev(a[3])) if len(a) > 3 else len(src)
            m.assign(strip_casts(a[1]), src[st:en])
            return 0
        if k == 'MCall':
            tgt = m.target_obj(c)
            if isinstance(tgt, Obj) and tgt.cls == 'resolver' and n == 'getNamespaceForPrefix':
                p = m.ev(a[0])
                v = self.bind.get(p)
                return 0 if v is None else Obj('uri', {'s': v})
            if isinstance(tgt, Obj) and tgt.cls == 'uri':
                if n in ('length', 'size'):
                    return len(tgt.fields['s'])
                if n == 'empty':
                    return int(not tgt.fields['s'])
            if isinstance(tgt, str) and n in ('clear', 'empty', 'length'):
                if n == 'clear':
                    m.assign(strip_casts(c['obj']), ''); return 0
                return int(not tgt) if n == 'empty' else len(tgt)
        if k == 'Call' and n == 'equals' and len(a) == 2:
            x, y = m.ev(a[0]), m.ev(a[1])
            x = x.fields['s'] if isinstance(x, Obj) and x.cls == 'uri' else x
            y = y.fields['s'] if isinstance(y, Obj) and y.cls == 'uri' else y
            return int(x == y)
        return NotImplemented


def run_rule(res, facts, tier):
    r = res.rule('C08-R12', 'method="html": FormatterToHTML::doPushHasNamespace interpreted for unprefixed and prefixed element names with the prefix unbound, bound to a namespace name and '
                 'bound to the empty string (xmlns=""): the element counts as namespaced - and is then written by the XML rules - exactly when its prefix is bound to a non-empty '
                 'namespace name (XSLT 1.0 16.2)', floor=8)
    cands = [a for a in facts.asts('FormatterToHTML::doPushHasNamespace', must=False) if a.get('body') is not None]
    if len(cands) != 1:
        raise AnalysisBroken('FormatterToHTML::doPushHasNamespace: %d bodies' % len(cands))
    fn = cands[0]
    w = HWorld(facts)
    cases = [('br', {}), ('br', {'': ''}), ('br', {'': 'urn:d'}), ('br', {'p': 'urn:p'}), ('p:br', {'p': 'urn:p'}), ('p:br', {'p': 'urn:p', '': ''}), ('p:br', {}), ('script', {'': '', 'p': 'urn:p'}),
             ('p:br', {'p': ''}), ('br', {'': 'urn:d', 'p': ''})]
    for name, bind in cases:
        w.bind = bind; w.calls = 0
        prefix = name.split(':')[0] if ':' in name else ''
        want = int(bool(bind.get(prefix)))
        this = Obj(NS + 'FormatterToHTML', {'m_prefixResolver': Obj('resolver', {}), 'm_stringBuffer': '', 'm_hasNamespaceStack': Vec([])})
        site = 'element <%s> with %s' % (name, ', '.join('%s bound to %s' % ('the default prefix' if not k2 else 'prefix ' + k2, repr(v) if v else 'the empty string (xmlns="")') for k2, v in sorted(bind.items())) or 'nothing bound')
        try:
            m = OMachine(w, {}, this); m.fuel = 5000
            got = m.run_body(fn, [name], this)
        except Fault as f:
            r.violation('html: element namespace test: fault', '%s: %s' % (site, f), common.file_line(fn)); continue
        except Unsupported as u:
            raise AnalysisBroken('FormatterToHTML::doPushHasNamespace outside the interpreted subset (%s): %s' % (site, u))
        st = this.fields['m_hasNamespaceStack'].items
        if int(bool(got)) == want and st and int(bool(st[-1])) == want:
            r.ok(site, 'namespaced' if want else 'an HTML element')
        else:
            r.violation('html: an element in no namespace is treated as namespaced' if not want else 'html: a namespaced element is treated as an HTML element',
                        '%s: doPushHasNamespace answers %r (stack %r); the expanded name has %s namespace URI, so the element %s' %
                        (site, got, st[-1:] if st else None, 'a' if want else 'no', 'is written as the xml method writes it' if want else 'is an HTML element: script / style unescaped, br without end tag'),
                        common.file_line(fn))
    return r
