"""XPath op-code producers (compiler) and consumers (interpreter switches).  Shared by C02, C09, C11."""
import collections
from ..build import AnalysisBroken
from ..mast import walk, calls, callee, switch_cases, label_name, strip_casts, pp, terminates, noreturn_call
from ..facts import short

EMITTERS = {'appendOpCode', 'insertOpCode', 'replaceOpCode', 'setOpCodeMapValue', 'setOpCodeArgs'}
TABLE_LOOKUPS = {  # parser helper -> table it searches
    'getAxisToken': 'XPathProcessorImpl::s_axisTable',
    'getNodeTypeToken': 'XPathProcessorImpl::s_nodeTypeTable',
    'getFunctionToken': 'XPathProcessorImpl::s_functionTable',
}
OPENUM = 'XPathExpression::e'


def is_opcode_ref(e):
    e = strip_casts(e)
    return e is not None and e.get('k') == 'Ref' and e.get('d') == 'enum' and short(e.get('q', '')).startswith(OPENUM)


class Producers:
    def __init__(self, facts):
        self.facts = facts
        self.table_codes = {}
        self.asts = {}
        cg = facts.cg
        roots = facts.fn('XPathProcessorImpl::initXPath') + facts.fn('XPathProcessorImpl::initMatchPattern')
        self.reach = cg.reach(roots)
        self.parser_fns = [k for k in self.reach if facts.F.get(k, {}).get('cls', '').endswith('XPathProcessorImpl') and k in facts.astidx]
        if len(self.parser_fns) < 40:
            raise AnalysisBroken('only %d XPathProcessorImpl functions reachable from initXPath/initMatchPattern (floor 40)' % len(self.parser_fns))
        self.sites = []  # (enum name, function usr, line, emitter)
        self._callers = None
        for k in self.parser_fns:
            a = facts.ast(k)
            for c in calls(a['body']):
                n = c.get('n') or ''
                if n in EMITTERS and 'XPathExpression' in (c.get('cls') or ''):
                    for arg in c['args']:
                        t = arg.get('ty', '') if isinstance(arg, dict) else ''
                        st = strip_casts(arg)
                        tys = {t, (st or {}).get('ty', '')}
                        if any('XPathExpression::eOpCodes' in x for x in tys) or is_opcode_ref(arg):
                            for v in self.values(arg, a, set()):
                                self.sites.append((v, k, c.get('l'), n))
        self.by_code = collections.defaultdict(list)
        for v, k, l, n in self.sites:
            self.by_code[v].append((k, l, n))

    # ---- value sets
    def table_values(self, tname):
        if tname not in self.table_codes:
            t = self.facts.table(tname)
            vals = set()
            for row in t['val']:
                for cell in row:
                    if isinstance(cell, dict) and 'enum' in cell:
                        vals.add(short(cell['enum']))
            if not vals:
                raise AnalysisBroken('table %s has no op-code cells' % tname)
            self.table_codes[tname] = vals
        return self.table_codes[tname]

    def callers_of(self, usr):
        if self._callers is None:
            self._callers = collections.defaultdict(list)
            for k in self.parser_fns:
                a = self.facts.ast(k)
                for c in calls(a['body']):
                    if c.get('usr'):
                        self._callers[c['usr']].append((a, c))
        return self._callers.get(usr, [])

    def values(self, e, fn_ast, seen):
        """set of op-code enum names an expression of type eOpCodes can evaluate to"""
        e = strip_casts(e)
        if e is None:
            return set()
        k = e['k']
        if k == 'Ref' and e.get('d') == 'enum':
            return {short(e['q'])}
        if k == 'Cond':
            return self.values(e['t'], fn_ast, seen) | self.values(e['f'], fn_ast, seen)
        if k in ('Call', 'MCall'):
            n = e.get('n') or callee(e).split('::')[-1]
            if n in TABLE_LOOKUPS:
                return set(self.table_values(TABLE_LOOKUPS[n])) | {'XPathExpression::eENDOP'}
            # a parser function returning an op code: its return expressions
            tgt = e.get('usr')
            a = self.facts.ast(tgt) if tgt else None
            if a and (tgt, 'ret') not in seen:
                seen = seen | {(tgt, 'ret')}
                out = set()
                for x in walk(a['body']):
                    if x['k'] == 'Return' and x.get('e'):
                        out |= self.values(x['e'], a, seen)
                return out
            return {'?' + pp(e)}
        if k == 'Ref' and e.get('d') == 'local':
            key = (fn_ast['usr'], e['id'])
            if key in seen:
                return set()
            seen = seen | {key}
            out = set()
            for x in walk(fn_ast['body']):
                if x['k'] == 'Decl':
                    for v in x['vars']:
                        if v['id'] == e['id'] and v.get('init') is not None:
                            out |= self.values(v['init'], fn_ast, seen)
                elif x['k'] == 'Bin' and x['op'] == '=':
                    l = strip_casts(x['lhs'])
                    if l and l.get('k') == 'Ref' and l.get('id') == e['id'] and l.get('d') == 'local':
                        out |= self.values(x['rhs'], fn_ast, seen)
            return out
        if k == 'Ref' and e.get('d') == 'param':
            key = (fn_ast['usr'], 'p', e['id'])
            if key in seen:
                return set()
            seen = seen | {key}
            idx = [i for i, p in enumerate(fn_ast['params']) if p['id'] == e['id']]
            out = set()
            for ca, c in self.callers_of(fn_ast['usr']):
                if idx and idx[0] < len(c['args']):
                    out |= self.values(c['args'][idx[0]], ca, seen)
            return out
        if 'cv' in e:
            return {'#%d' % e['cv']}
        return {'?' + pp(e)}

    def emitted(self):
        return set(self.by_code)

    def emitted_in(self, fn_names):
        out = collections.defaultdict(list)
        for v, k, l, n in self.sites:
            if self.facts.name[k].split('::')[-1] in fn_names:
                out[v].append((k, l, n))
        return out


def family(code):
    c = code.split('::')[-1]
    if c.startswith('eOP_'):
        return 'OP'
    if c.startswith('eFROM_') or c.startswith('eMATCH_'):
        return 'STEP'
    if c.startswith('eNODETYPE_') or c == 'eNODENAME':
        return 'NODETEST'
    if c in ('eENDOP', 'eEMPTY', 'eELEMWILDCARD'):
        return 'MARK'
    return None


class Consumer:
    """one switch statement over op codes"""

    def __init__(self, facts, fn_ast, sw):
        self.fn = fn_ast; self.sw = sw; self.facts = facts
        self.groups = switch_cases(sw)
        self.labels = {}
        self.default = None
        for g in self.groups:
            for l in g['labels']:
                if l is None:
                    self.default = g
                else:
                    self.labels[short(label_name(l))] = g

    def default_is_error(self):
        if self.default is None:
            return None
        from . import common
        return common.reports_error(self.facts, self.default['stmts'])


def opcode_switches(facts, qname, which=None):
    """Consumers for every instance of function qname: the outermost switch whose labels are op codes"""
    out = []
    for a in facts.asts(qname):
        sws = [n for n in walk(a['body']) if n['k'] == 'Switch']
        cands = []
        for sw in sws:
            c = Consumer(facts, a, sw)
            if any(l.startswith(OPENUM) for l in c.labels):
                cands.append(c)
        if not cands:
            continue
        out.append((a, cands))
    if not out:
        raise AnalysisBroken('no op-code switch found in ' + qname)
    return out


# ---------------------------------------------------------------- grammar obligation of the '//' pattern step (C03-R7, lemma of C09-R1)
DSLASH = ('XPathExpression::eMATCH_ANY_ANCESTOR_WITH_PREDICATE', 'XPathExpression::eMATCH_ANY_ANCESTOR_WITH_FUNCTION_CALL')


def dslash_obligation(facts):
    """In LocationPathPattern every path from an emission of a '//' step to the normal exit must pass through a call of
    RelativePathPattern (the grammar: '//'? RelativePathPattern) or end in error().  Returns (emission count, [violations])."""
    from ..mast import CFG, reach_with_constants
    from . import common
    out = []
    n = 0
    for a in facts.asts('XPathProcessorImpl::LocationPathPattern'):
        cfg = CFG(a)
        emit_nodes = []
        for nd in cfg.nodes:
            if nd.ast is None or nd.kind not in ('stmt', 'cond'):
                continue
            for c in calls(nd.ast):
                if (c.get('n') in EMITTERS):
                    for arg in c['args']:
                        sa = strip_casts(arg)
                        if sa is not None and sa.get('k') == 'Ref' and short(sa.get('q', '')) in DSLASH:
                            emit_nodes.append((nd, short(sa['q']), c.get('l')))

        def discharges(nd):
            if nd.ast is None:
                return False
            for c in calls(nd.ast):
                if c.get('n') == 'RelativePathPattern':
                    return True
            return False
        for nd, code, line in emit_nodes:
            n += 1
            seen = reach_with_constants(cfg, nd, discharges)
            if cfg.exit.id in seen:
                out.append({'code': code, 'line': line, 'file': a['file'].replace('/repo/', '')})
    if n == 0:
        raise AnalysisBroken("no emission of a '//' pattern step found in LocationPathPattern")
    return n, out
