"""C01-R18 — key(name, node-set) is the union of key(name, string-value) over the nodes of the set.

XSLT 1.0 12.2.  FunctionKey::execute is interpreted with the look-up itself (getNodeSet -> the key table, C12's) as a recorder: for a string argument, for node-sets of one,
two and three nodes whose string-values include the empty string and repeat, the values looked up must be exactly the string-values of the argument's nodes (each at least
once) under the key name given - no node of the argument is skipped, nothing else is looked up."""
from ..build import AnalysisBroken
from ..mast import Unsupported, callee, strip_casts
from ..facts import NS
from ..omach import OMachine, Obj, Fault
from . import common


class KN:
    identity = True

    def __init__(self, v):
        self.v = v


class KWorld:
    def __init__(self, facts):
        self.facts = facts
        self.depth = 0; self.calls = 0; self.max_calls = 3000
        self.looked = []
        self.NODESET = facts.enumconst.get(NS + 'XObject::eTypeNodeSet')
        self.STRING = facts.enumconst.get(NS + 'XObject::eTypeString')
        if self.NODESET is None:
            raise AnalysisBroken('XObject::eTypeNodeSet not found')

    def tables(self, q):
        return None

    def glob(self, name):
        return ('GLOBAL', name.split('::')[-1])

    def allow(self, body, c):
        return False

    def destructor(self, o):
        return None

    def hook(self, m, c):
        k = c['k']
        n = c.get('n') or callee(c).split('::')[-1]
        a = c.get('args', [])
        cls = c.get('cls') or ''
        if k == 'Ctor' and 'GetCachedNodeList' in cls:
            return Obj('result', {})
        if k == 'Ctor' and 'GetCachedString' in cls:
            return Obj('strguard', {'s': ''})
        if k == 'OpCall' and c.get('op') in ('->', '*') and len(a) == 1:
            return m.ev(a[0])
        if n == 'getNodeSet' and len(a) >= 5:
            self.looked.append((m.ev(a[2]), m.ev(a[3])))
            return 0
        if n == 'getNodeData' and len(a) == 3:
            nd = m.ev(a[0])
            t = strip_casts(a[2])
            m.assign(t, (m.ev(t) or '') + nd.v)
            return 0
        if k == 'MCall':
            tgt = m.target_obj(c)
            if isinstance(tgt, Obj) and tgt.cls == 'arg':
                if n == 'null':
                    return 0
                if n == 'str':
                    return tgt.fields['str']
                if n == 'getType':
                    return tgt.fields['type']
                if n == 'nodeset':
                    return Obj('list', {'items': tgt.fields['nodes']})
                if n == 'get':
                    return tgt
            if isinstance(tgt, Obj) and tgt.cls == 'list':
                if n == 'getLength':
                    return len(tgt.fields['items'])
                if n == 'item':
                    return tgt.fields['items'][int(m.ev(a[0]))]
            if isinstance(tgt, Obj) and tgt.cls == 'strguard' and n == 'get':
                return ''
            if isinstance(tgt, Obj) and tgt.cls == 'result' and n == 'get':
                return tgt
            if isinstance(tgt, str) and n in ('length', 'clear', 'empty'):
                if n == 'clear':
                    m.assign(strip_casts(c['obj']), ''); return 0
                return len(tgt) if n == 'length' else int(not tgt)
            if n == 'getPrefixResolver':
                return 'RES'
            if n == 'getXObjectFactory':
                return 'FACTORY'
            if tgt == 'FACTORY' and n == 'createNodeSet':
                return 'RESULT'
        return NotImplemented


def run_rule(res, facts, tier):
    r = res.rule('C01-R18', 'key(name, node-set) is the union of key(name, string-value) over the nodes of the set (XSLT 1.0 12.2): FunctionKey::execute interpreted with the look-up as a '
                 'recorder on string arguments and node-sets of one to three nodes with empty and repeated string-values: the values looked up are exactly the string-values of the '
                 'argument\'s nodes', floor=12)
    cands = [a for a in facts.asts('FunctionKey::execute', must=False) if a.get('body') is not None and len(a['params']) == 5]
    if len(cands) != 1:
        raise AnalysisBroken('FunctionKey::execute(context, node, arg1, arg2, locator): %d bodies' % len(cands))
    fn = cands[0]
    w = KWorld(facts)
    cases = [('string', 'x'), ('string', ''), ('set', ['x']), ('set', ['']), ('set', ['x', 'y']), ('set', ['', 'x']), ('set', ['x', '']), ('set', ['', '']), ('set', ['x', '', 'x']),
             ('set', ['', 'y', '']), ('set', []), ('set', ['a', 'b', 'c'])]
    for kind, val in cases:
        arg1 = Obj('arg', {'str': 'kname', 'type': w.STRING, 'nodes': []})
        if kind == 'string':
            arg2 = Obj('arg', {'str': val, 'type': w.STRING, 'nodes': []})
            want = {val}
            site = "key('kname', '%s')" % val
        else:
            nodes = [KN(v) for v in val]
            arg2 = Obj('arg', {'str': val[0] if val else '', 'type': w.NODESET, 'nodes': nodes})
            want = set(val)
            site = "key('kname', <node-set with the string-values %s>)" % val
        w.looked = []; w.calls = 0
        try:
            m = OMachine(w, {}, Obj(NS + 'FunctionKey', {})); m.fuel = 10000
            m.run_body(fn, ['ECTX', KN('ctx'), arg1, arg2, 0], m.this)
        except Fault as f:
            r.violation('key(): fault', '%s: %s' % (site, f), common.file_line(fn)); continue
        except Unsupported as u:
            raise AnalysisBroken('FunctionKey::execute outside the interpreted subset (%s): %s' % (site, u))
        got = {v for nm, v in w.looked}
        names = {nm for nm, v in w.looked}
        if got == want and names <= {'kname'}:
            r.ok(site, 'looked up: %s' % sorted(got))
        else:
            r.violation('key(): %s' % ('a node of the argument is skipped' if want - got else 'a value is looked up that no node of the argument has'),
                        '%s looks up %s under %s; the string-values of the argument are %s' % (site, sorted(got), sorted(names), sorted(want)), common.file_line(fn))
    return r
