"""C16 — xsl:sort yields a stable permutation ordered by its keys: stable algorithm, key comparator interpreted over its finite
decision domain, caches indexed by the original position (DESIGN.md §3)."""
import collections, itertools
from ..build import AnalysisBroken
from ..mast import walk, calls, callee, strip_casts, pp, Machine, Unsupported, CFG
from ..facts import short, NS
from . import common

NAN = 'NaN'


class Next:
    """symbolic result of the recursive call compare(lhs, rhs, keyIndex + 1); remembers what is done to it"""

    def __init__(self, neg=False):
        self.neg = neg

    def __neg__(self):
        return Next(not self.neg)

    def __eq__(self, o):
        if isinstance(o, Next):
            return self.neg == o.neg
        return False

    def __ne__(self, o):
        return not self.__eq__(o)

    def __hash__(self):
        return 7 + self.neg

    def __repr__(self):
        return ('-' if self.neg else '') + 'compare(theLHS, theRHS, theKeyIndex + 1)'


def r1_stable(res, facts):
    r = res.rule('C16-R1', 'NodeSorter::sort: where it orders with a standard algorithm, that is std::stable_sort (equal keys keep document order; std::sort is not stable) and the comparator object '
                 'is the NodeSortKeyCompare of this sorter; a hand-written routine is left to C16-R7', floor=1)
    found = False
    for a in facts.asts('NodeSorter::sort'):
        names = [c.get('n') for c in calls(a['body'])]
        if 'stable_sort' in names:
            found = True
            c = [c for c in calls(a['body']) if c.get('n') == 'stable_sort'][0]
            cmp_ty = short(strip_casts(c['args'][2]).get('ty', '')) if len(c['args']) > 2 else ''
            if 'NodeSortKeyCompare' in cmp_ty:
                r.ok('NodeSorter::sort: stable_sort with %s' % cmp_ty)
            else:
                r.violation('NodeSorter::sort comparator', 'stable_sort is given %s, not the key comparator' % cmp_ty, common.file_line(a, c))
        if 'sort' in names and any(c.get('n') == 'sort' and (c.get('fn') or '').startswith('std::') for c in calls(a['body'])):
            r.violation('NodeSorter::sort algorithm', 'std::sort is not stable: nodes with equal keys may change order', common.file_line(a))
            found = True
    if not found:
        # a sorting routine of the library's own: whether it is stable is not visible in a call name.  C16-R7 interprets it (lists of 3, 4 and 40 / 70 nodes with ties) and
        # says so if it cannot; nothing is claimed here
        r.ok('NodeSorter::sort: no standard sorting call', 'a hand-written routine: its stability is decided by C16-R7, by interpretation')
    return r


def r2_compare(res, facts):
    r = res.rule('C16-R2', 'NodeSortKeyCompare::compare, interpreted over {NaN / < / = / >} x {ascending, descending} x {last key, more keys} x {number, text}: NaN sorts first and ties NaN, '
                 'descending negates a non-zero result only, a tie on a non-last key recurses with the next key index; operator() is compare(..) < 0', floor=36)
    a = facts.asts('NodeSorter::NodeSortKeyCompare::compare')[0]
    if len(a['params']) != 3:
        raise AnalysisBroken('NodeSortKeyCompare::compare: %d parameters (lhs, rhs, key index expected)' % len(a['params']))
    LHS, RHS, KEY = (p['id'] for p in a['params'])          # by position, not by name

    def side(e):
        e = strip_casts(e)
        return {LHS: 'lhs', RHS: 'rhs'}.get(e.get('id') if e is not None else None, pp(e) if e is not None else '?')
    cases = []
    nums = [(NAN, NAN, 0), (NAN, 1.0, -1), (1.0, NAN, 1), (1.0, 2.0, -1), (2.0, 1.0, 1), (1.5, 1.5, 0)]
    for (n1, n2, base), desc, nkeys in itertools.product(nums, (False, True), (1, 2)):
        cases.append(('number', n1, n2, base, desc, nkeys))
    for coll, desc, nkeys in itertools.product((-1, 0, 1), (False, True), (1, 2)):
        cases.append(('text', None, None, coll, desc, nkeys))
    for kind, n1, n2, base, desc, nkeys in cases:
        rec = []

        def hook(m, c, kind=kind, n1=n1, n2=n2, base=base, desc=desc, nkeys=nkeys):
            n = c.get('n') or ''
            if c['k'] == 'OpCall' and c['op'] == '[]':
                return 'KEY'
            if n == 'getTreatAsNumbers':
                return int(kind == 'number')
            if n == 'getDescending':
                return int(desc)
            if n == 'size':
                return nkeys
            if n == 'getNumberResult':
                return n1 if side(c['args'][2]) == 'lhs' else n2
            if n == 'isNaN':
                return int(m.ev(c['args'][0]) == NAN)
            if n in ('lessThan', 'greaterThan', 'equal', 'lessThanOrEqual', 'greaterThanOrEqual'):
                x, y = m.ev(c['args'][0]), m.ev(c['args'][1])
                if x == NAN or y == NAN:
                    return 0
                return int({'lessThan': x < y, 'greaterThan': x > y, 'equal': x == y, 'lessThanOrEqual': x <= y, 'greaterThanOrEqual': x >= y}[n])
            if n == 'getStringResult':
                return 'S1' if side(c['args'][2]) == 'lhs' else 'S2'
            if n == 'doCollationCompare':
                x, y = m.ev(c['args'][1]), m.ev(c['args'][2])
                if (x, y) == ('S1', 'S2'):
                    return base
                if (x, y) == ('S2', 'S1'):
                    return -base
                raise Unsupported('collation operands %s %s' % (x, y))
            if n in ('getLanguageString', 'getCaseOrder'):
                return 0
            if n == 'compare':
                idx = m.ev(c['args'][2])
                rec.append((side(c['args'][0]), side(c['args'][1]), idx))
                return Next()
            return NotImplemented
        m = Machine({KEY: 0}, call_hook=hook)
        try:
            got = m.call(a['body'])
        except Unsupported as u:
            raise AnalysisBroken('NodeSortKeyCompare::compare outside the interpreted subset: %s' % u)
        if base != 0:
            want = -base if desc else base
        elif nkeys > 1:
            want = Next()
        else:
            want = 0
        site = 'compare(%s %s, %s, keys=%d)' % (kind, ('%s vs %s' % (n1, n2)) if kind == 'number' else 'collation=%d' % base, 'descending' if desc else 'ascending', nkeys)
        isnext = isinstance(want, Next)
        if got == want and (not isnext or rec == [('lhs', 'rhs', 1)]):
            r.ok(site, str(got))
        else:
            r.violation(site, 'comparator yields %s%s, required %s' % (got, (' with operands ' + str(rec)) if rec and isnext else '', want), common.file_line(a))
    # operator()
    for op in facts.asts('NodeSorter::NodeSortKeyCompare::operator()'):
        rets = [x for x in walk(op['body']) if x['k'] == 'Return']
        txt = pp(rets[0]['e']) if rets else ''
        e = strip_casts(rets[0]['e']) if rets else None
        if e is not None and e.get('k') == 'Cond':
            c = strip_casts(e['c']); t = strip_casts(e['t']); f = strip_casts(e['f'])
            ok = c.get('k') == 'Bin' and c['op'] == '<' and strip_casts(c['rhs']).get('cv') == 0 and strip_casts(c['lhs']).get('n') == 'compare' and t.get('cv') == 1 and f.get('cv') == 0
            args = [strip_casts(x).get('id') for x in strip_casts(c['lhs'])['args'][:2]] if ok else []
            ok = ok and args == [p['id'] for p in op['params'][:2]]
        elif e is not None and e.get('k') == 'Bin':
            ok = e['op'] == '<' and strip_casts(e['rhs']).get('cv') == 0 and strip_casts(e['lhs']).get('n') == 'compare'
        else:
            ok = False
        if ok:
            r.ok('operator() is compare(theLHS, theRHS, ..) < 0')
        else:
            r.violation('NodeSortKeyCompare::operator()', 'the less-than predicate is %s, not compare(theLHS, theRHS) < 0' % txt, common.file_line(op))
    return r


def r3_caches(res, facts):
    r = res.rule('C16-R3', 'sort-key caches are indexed by the node\'s original position (m_position), and the scratch vector pairs each node with its position in input order', floor=6)

    def aliases(a):
        """local variables that are plain names for an expression: {id: initialiser} (references and const locals initialised once)"""
        out = {}
        for x in walk(a['body']):
            if x.get('k') == 'Decl':
                for v in x.get('vars', []):
                    if v.get('init') is not None:
                        out[v['id']] = v['init']
        return out

    def resolve(e, al, depth=0):
        e = strip_casts(e)
        while e is not None and e.get('k') == 'Ref' and e.get('d') == 'local' and e.get('id') in al and depth < 6:
            e = strip_casts(al[e['id']]); depth += 1
        return e
    for q in ('NodeSorter::NodeSortKeyCompare::getNumberResult', 'NodeSorter::NodeSortKeyCompare::getStringResult'):
        for a in facts.asts(q):
            n = 0
            al = aliases(a)
            for x in walk(a['body']):
                if x['k'] == 'OpCall' and x['op'] == '[]' and len(x['args']) == 2:
                    base = resolve(x['args'][0], al)
                    if base is not None and base.get('k') == 'OpCall' and base['op'] == '[]':
                        n += 1
                        ix = resolve(x['args'][1], al)
                        idx = pp(ix)
                        site = '%s: cache slot index' % q.split('::')[-1]
                        if idx.endswith('m_position'):
                            r.ok(site, idx)
                        elif ix is not None and ix.get('k') == 'Ref' and ix.get('d') in ('local', 'param'):
                            r.violation(site, 'cached key value addressed by %s, not by the node\'s original position: values get attached to other nodes as the sort permutes them' % idx, common.file_line(a, x))
                        else:
                            res.broken.append('C16-R3: %s addresses the cache by %s, a form this rule cannot relate to m_position (C16-R6 decides the caches by value)' % (q, idx[:60]))
                            r.instances += 1
            if n == 0:
                res.broken.append('C16-R3: no two-level cache access recognised in %s (C16-R6 decides the caches by value)' % q)
    for a in facts.asts('NodeSorter::sort'):
        if len(a['params']) < 2:
            continue
        for c in calls(a['body']):
            if c.get('n') == 'push_back' and 'm_scratchVector' in pp(c.get('obj')):
                entry = strip_casts(c['args'][0])
                eargs = [strip_casts(y) for y in (entry.get('args') or [])] if entry is not None and entry.get('k') == 'Ctor' else []
                while len(eargs) == 1 and eargs[0] is not None and eargs[0].get('k') == 'Ctor':
                    eargs = [strip_casts(y) for y in (eargs[0].get('args') or [])]
                if len(eargs) == 2 and eargs[0].get('k') == 'MCall' and eargs[0].get('n') == 'item' and len(eargs[0].get('args', [])) == 1:
                    if pp(strip_casts(eargs[0]['args'][0])) == pp(eargs[1]):
                        r.ok('NodeSorter::sort pairs item(i) with position i')
                    else:
                        r.violation('NodeSorter::sort scratch entries', 'scratch entry %s does not pair node i with position i' % pp(c['args'][0]), common.file_line(a, c))
                else:
                    res.broken.append('C16-R3: the scratch entry %s is not of the form VectorEntry(list.item(i), i) (C16-R7 decides the whole sort by value)' % pp(c['args'][0])[:80])
                    r.instances += 1
    return r


def run(res, facts, tier):
    r1_stable(res, facts)
    r2_compare(res, facts)
    r3_caches(res, facts)
    res.assume('C16: collation results, the permutation of a particular list and position()/last() inside the sorted loop are behavioural and not decided')


def r4_key_context(res, facts):
    """XSLT 1.0 §10: a sort key is evaluated with the node as current node and the complete unsorted selection as current node list.
    NodeSorter evaluates keys lazily during the sort, so the list that position() / last() in a key see is whatever is pushed around sort()."""
    r = res.rule('C16-R4', 'every call of NodeSorter::sort is in the scope of a ContextNodeListPushAndPop guard that pushes the unsorted selection: position() and last() in a sort key '
                 'refer to the selection being sorted, not to the node list of the enclosing instruction', floor=1)
    sites = 0
    for k in facts.astidx:
        a = facts.ast(k)
        if a is None or not facts.lib_path(a['file']):
            continue
        sorts = [c for c in calls(a['body']) if c.get('k') == 'MCall' and c.get('n') == 'sort' and 'NodeSorter' in (c.get('cls') or '') and len(c.get('args', [])) == 2]
        if not sorts or short(facts.name[k]).startswith('NodeSorter::'):
            continue
        for sc in sorts:
            sites += 1
            guard = []

            def search(block, active):
                """walk nested compounds; `active` = guard decls in scope"""
                if not isinstance(block, dict):
                    return False
                if block.get('k') == 'Compound':
                    act = list(active)
                    for st in block.get('c', []):
                        if st.get('k') == 'Decl':
                            for v in st.get('vars', []):
                                if 'ContextNodeListPushAndPop' in (v.get('ty') or ''):
                                    act.append(v)
                        if any(x is sc for x in walk(st)):
                            if st.get('k') == 'Compound' or any(y.get('k') == 'Compound' for y in walk(st) if y is not st):
                                # descend
                                for sub in ([st] if st.get('k') == 'Compound' else [y for y in walk(st) if y is not st and y.get('k') == 'Compound']):
                                    if any(x is sc for x in walk(sub)):
                                        return search(sub, act)
                            guard.extend(act)
                            return True
                    return False
                for y in walk(block):
                    if y is not block and y.get('k') == 'Compound' and any(x is sc for x in walk(y)):
                        return search(y, active)
                return False
            search(a['body'], [])
            fn = short(facts.name[k])
            site = '%s: sorter.sort(%s)' % (fn, pp(sc['args'][1])[:30])
            sorted_list = pp(strip_casts(sc['args'][1]))
            if not guard:
                r.violation(site, 'the sort runs without a ContextNodeListPushAndPop in scope: keys that use position() or last() are evaluated against the node list of the enclosing '
                            'instruction (position() = 0 or the outer position, last() = the outer size), so such keys all tie or sort by the wrong value', common.file_line(a, sc))
                continue
            g = guard[-1]
            init = strip_casts(g.get('init'))
            pushed = pp(strip_casts(init['args'][-1])) if isinstance(init, dict) and init.get('k') == 'Ctor' and init.get('args') else '?'
            # the pushed list is the selection the sorted list was copied from, or the sorted list itself before sorting
            copied = any(x.get('k') in ('Bin', 'OpCall') and x.get('op') == '=' and pp(strip_casts(x['lhs'] if x['k'] == 'Bin' else x['args'][0])) == sorted_list and
                         pp(strip_casts(x['rhs'] if x['k'] == 'Bin' else x['args'][1])) == pushed for x in walk(a['body']))
            if pushed == sorted_list or copied:
                r.ok(site, 'within ContextNodeListPushAndPop(%s)' % pushed)
            else:
                r.violation(site, 'the guard in scope pushes %s, which is not the selection being sorted (%s)' % (pushed, sorted_list), common.file_line(a, sc))
    if sites == 0:
        raise AnalysisBroken('no call of NodeSorter::sort(executionContext, list) found outside NodeSorter')
    return r


_run_c16_prev = run


def run(res, facts, tier):
    _run_c16_prev(res, facts, tier)
    r4_key_context(res, facts)


def r5_reentrancy(res, facts):
    """A sort key is an arbitrary expression: through a variable evaluated on first use it can instantiate a template body that sorts.  The call
    graph shows whether NodeSorter::sort can reach sortChildren again; if it can, sortChildren must not fill the shared sorter while it is in use."""
    r = res.rule('C16-R5', 'nested sorts: NodeSorter::sort can reach ElemForEach::sortChildren again through key evaluation (call graph), so sortChildren takes the execution context\'s '
                 'shared sorter only when its key vector is empty and otherwise works on a sorter of its own', floor=2)
    cg = facts.cg
    sort_fns = [k for k in facts.fn('NodeSorter::sort', must=False)]
    sc = [k for k in facts.fn('ElemForEach::sortChildren', must=False)]
    if not sort_fns or not sc:
        raise AnalysisBroken('NodeSorter::sort / ElemForEach::sortChildren not found')
    seen = cg.reach(sort_fns)
    reent = [k for k in sc if k in seen]
    if not reent:
        r.ok('NodeSorter::sort cannot reach sortChildren: no nested sorts')
        return r
    path = cg.path(seen, reent[0])
    r.ok('reentrancy is possible', ' -> '.join(path[:3] + ['...'] + path[-3:]) if len(path) > 7 else ' -> '.join(path))
    a = facts.ast(sc[0])
    shared = [c for c in calls(a['body']) if (c.get('n') or '') == 'getNodeSorter']
    local = [v for x in walk(a['body']) if x.get('k') == 'Decl' for v in x.get('vars', []) if short(v.get('ty') or '').replace('xalanc_1_12::', '') == 'NodeSorter']
    guard = None
    for x in walk(a['body']):
        if x.get('k') == 'If' and 'getSortKeys().empty()' in pp(x['cond']):
            core, eff = common.norm_atom(x['cond'], True)
            asg = [y for y in walk(x['then']) if y.get('k') == 'Bin' and y['op'] == '=' and local and ('&' + local[0]['n']) in pp(y['rhs']).replace('(', '').replace(')', '')]
            if asg and not eff:
                guard = x
            elif asg and eff and x.get('else') is None:
                guard = None
    site = 'ElemForEach::sortChildren: choice of the sorter'
    if not shared:
        r.ok(site, 'does not use the shared sorter')
    elif local and guard is not None:
        # the guard precedes the first use of the key vector
        first_keys = min([x.get('l') or 0 for x in walk(a['body']) if x.get('k') == 'Decl' and
                          any(v.get('init') is not None and any((c.get('n') or '') == 'getSortKeys' for c in calls(v['init'])) for v in x.get('vars', []))] or [0])
        if first_keys == 0:
            raise AnalysisBroken('ElemForEach::sortChildren: no local takes the key vector of the sorter (getSortKeys())')
        if (guard.get('l') or 0) <= first_keys:
            r.ok(site, 'shared sorter only while its key vector is empty, else a local NodeSorter')
        else:
            r.violation(site, 'the busy test comes after the key vector of the shared sorter has been taken', common.file_line(a, guard))
    else:
        r.violation(site, 'the single sorter of the execution context is filled with this sort\'s keys even when an enclosing sort is evaluating its keys with it: the outer sort continues with '
                    'the wrong (or cleared) key vector — a key that refers to a lazily evaluated variable containing a sorted loop fails with a bogus circular-variable error', common.file_line(a, shared[0]))
    return r


_run_c16_prev2 = run


def run(res, facts, tier):
    _run_c16_prev2(res, facts, tier)
    r5_reentrancy(res, facts)


_run_c16_prev6 = run


def run(res, facts, tier):
    _run_c16_prev6(res, facts, tier)
    from . import c16_cache
    c16_cache.run_rule(res, facts, tier)


_run_c16_prev7 = run


def run(res, facts, tier):
    _run_c16_prev7(res, facts, tier)
    from . import c16_sort
    c16_sort.run_rule(res, facts, tier)
    from . import c16_collator
    c16_collator.run_rule(res, facts, tier)
