"""C04-R18 — the older XML serializer, FormatterToXML, writes every character of text and attribute values as the XML rules require, and agrees with the other serializer.

FormatterToXML is the class applications construct themselves (and the base of the HTML serializer).  Its two character maps are built by interpreting initCharsMap /
initAttrCharsMap from the default special characters; characters() and writeAttrString() with accumDefaultEscape / accumDefaultEntity are then interpreted for every code
unit 1..0xFF, for U+0100, U+2028 and a surrogate pair, under version 1.0 / 1.1 and a largest character of 0x7F / 0xFF / 0xFFFF.  The outcome (raw, entity, numeric reference,
line separator, error) must be one the XML Recommendations allow for that character in that position - the table C04-R1 holds the XalanXMLSerializer family to: a character
of XML is never refused, what a parser would normalize is written as a reference, what is not a character is an error.  Text is also cut into two events at every place:
same outcome, no raw "]]>"."""
from ..build import AnalysisBroken
from ..mast import Unsupported, callee, strip_casts
from ..facts import NS
from ..omach import OMachine, Obj, Vec, Fault
from . import common
from .c04 import required, TAB, LF, CR
from .c04_split import TEXTS


class Thrown(Exception):
    pass


class FWorld:
    def __init__(self, facts):
        self.facts = facts
        self.depth = 0; self.calls = 0; self.max_calls = 6000
        self.out = []

    def tables(self, q):
        return None

    def glob(self, name):
        return ('GLOBAL', name.split('::')[-1])

    def allow(self, body, c):
        n = (body.get('fq') or '').split('::')[-1]
        return body['file'].endswith('XMLSupport/FormatterToXML.cpp') and n in ('accumDefaultEscape', 'accumDefaultEntity', 'initAttrCharsMap', 'initCharsMap')

    def destructor(self, o):
        return None

    def hook(self, m, c):
        n = c.get('n') or callee(c).split('::')[-1]
        a = c.get('args', [])
        if n == 'memset' and len(a) == 3:
            v = m.ev(a[0])
            if isinstance(v, Vec):
                fill = int(m.ev(a[1]))
                v.items[:] = [fill] * len(v.items)
                return 0
            raise Unsupported('memset(%r)' % (v,))
        if n == 'accumContent':
            vals = [m.ev(x) for x in a]
            if len(vals) == 1 and isinstance(vals[0], int):
                self.out.append(('RAW', vals[0])); return 0
            if len(vals) == 1 and isinstance(vals[0], str):
                for ch in vals[0]:
                    self.out.append(('RAW', ord(ch)))
                return 0
            if len(vals) == 3 and isinstance(vals[0], str):
                for ch in vals[0][int(vals[1]):int(vals[1]) + int(vals[2])]:
                    self.out.append(('RAW', ord(ch)))
                return 0
            raise Unsupported('accumContent%r' % (tuple(vals),))
        if n == 'outputLineSep':
            self.out.append(('NEWLINE',)); return 0
        if n == 'writeNumberedEntityReference':
            self.out.append(('CHARREF', int(m.ev(a[0])))); return 0
        if n.startswith('throwInvalid'):
            self.out.append(('ERROR',)); raise Thrown()
        if n in ('writeParentTagEnd', 'getMemoryManager'):
            return 0
        if n == 'length' and (strip_casts(c.get('obj')) or {}).get('k') == 'Member':
            v = m.target_obj(c)
            if isinstance(v, str):
                return len(v)
        return NotImplemented


def classify(out):
    """events -> outcome class of a single character: RAW / ENTITY / CHARREF / NEWLINE / ERROR / a description when it is none of them"""
    if any(e[0] == 'ERROR' for e in out):
        return 'ERROR'
    if len(out) == 1 and out[0][0] in ('CHARREF', 'NEWLINE', 'RAW'):
        return out[0][0]
    if out and all(e[0] == 'RAW' for e in out):
        s = ''.join(chr(e[1]) for e in out)
        if s in ('&lt;', '&gt;', '&amp;', '&quot;', '&apos;'):
            return 'ENTITY'
        return 'text %r' % s
    return str(out)


def decode(out):
    import re
    s = ''
    for e in out:
        s += chr(e[1]) if e[0] in ('RAW',) else ('\n' if e[0] == 'NEWLINE' else ('&#%d;' % e[1] if e[0] == 'CHARREF' else '\x00'))
    raw = s
    s = re.sub(r'&#(\d+);', lambda mm: chr(int(mm.group(1))), s)
    for k, v in (('&lt;', '<'), ('&gt;', '>'), ('&quot;', '"'), ('&apos;', "'"), ('&amp;', '&')):
        s = s.replace(k, v)
    return s, raw


def run_rule(res, facts, tier):
    r = res.rule('C04-R18', 'FormatterToXML (the serializer applications construct themselves): character maps built by interpreting initCharsMap, then characters() and '
                 'writeAttrString() interpreted for every code unit 1..0xFF, U+0100, U+2028 and a surrogate pair under XML 1.0 / 1.1 and three encodings: the outcome is one the XML '
                 'rules allow for that character in text / in an attribute value (the table C04-R1 applies to the other serializer); text cut into two events gives the same '
                 'output, without a raw "]]>"', floor=2500)

    def one(name, np):
        c = [a for a in facts.asts(name, must=False) if a.get('body') is not None and len(a['params']) == np]
        if len(c) != 1:
            raise AnalysisBroken('%s/%d: %d bodies' % (name, np, len(c)))
        return c[0]
    init = one('FormatterToXML::initCharsMap', 0)
    chars_fn = one('FormatterToXML::characters', 2)
    attr_fn = one('FormatterToXML::writeAttrString', 2)
    t = facts.table('theDefaultAttrSpecialChars', must=False)
    if t is None:
        raise AnalysisBroken('theDefaultAttrSpecialChars not found')
    specials = ''.join(chr(x['val'] if isinstance(x, dict) else x) for x in facts.resolve(t['val']) if (x['val'] if isinstance(x, dict) else x))
    size = facts.enumconst.get(NS + 'FormatterToXML::SPECIALSSIZE')
    if not size:
        raise AnalysisBroken('FormatterToXML::SPECIALSSIZE not found')
    kfields = {f['n'] for f in (facts.K.get(NS + 'FormatterToXML') or {}).get('fields', [])}
    for ver11 in (0, 1):
        ver = '1_1' if ver11 else '1_0'
        for maxc in (0x7F, 0xFF, 0xFFFF):
            this = Obj(NS + 'FormatterToXML', {'m_charsMap': Vec([7] * size), 'm_attrCharsMap': Vec([7] * size), 'm_attrSpecialChars': specials, 'm_maxCharacter': maxc,
                                               'm_isXML1_1': ver11, 'm_inCData': 0, 'm_nextIsRaw': 0, 'm_ispreserve': 0, 'm_isprevtext': 0})
            for f in kfields:
                this.fields.setdefault(f, 0)
            w = FWorld(facts)
            try:
                m = OMachine(w, {}, this); m.fuel = 40000
                m.run_body(init, [], this)
            except Unsupported as u:
                raise AnalysisBroken('FormatterToXML::initCharsMap outside the interpreted subset: %s' % u)
            label = 'FormatterToXML, XML %s, largest character U+%04X' % (ver.replace('_', '.'), maxc)

            def run(fn, s):
                w.out = []; w.calls = 0
                mm = OMachine(w, {}, this); mm.fuel = 40000
                try:
                    mm.run_body(fn, [s, len(s)], this)
                except Thrown:
                    pass
                return list(w.out)
            try:
                for c in list(range(1, 0x100)) + [0x100, 0x2028]:
                    rc, ra, _ = required(ver, c) if c < 0x100 else ({'RAW', 'CHARREF'}, {'RAW', 'CHARREF'}, None)
                    if c > maxc:
                        rc = rc & {'CHARREF', 'ERROR', 'ENTITY', 'NEWLINE'} or {'CHARREF'}
                        ra = ra & {'CHARREF', 'ERROR', 'ENTITY'} or {'CHARREF'}
                    if c == 0x2028 and ver11:
                        rc = ra = {'CHARREF'}
                    for what, fn, allowed in (('text', chars_fn, rc), ('an attribute value', attr_fn, ra)):
                        got = classify(run(fn, chr(c)))
                        site = '%s: U+%04X in %s' % (label, c, what)
                        if got in allowed:
                            r.ok(site, got)
                        else:
                            r.violation('FormatterToXML: %s' % ('a character of XML is refused' if got == 'ERROR' else 'outcome not allowed by the XML rules'),
                                        '%s: the code yields %s, the XML rules require %s%s' % (site, got, '/'.join(sorted(allowed)),
                                                                                                ' (the XalanXMLSerializer family writes a reference)' if got == 'ERROR' else ''), common.file_line(fn))
                # a surrogate pair: one reference to the character, or the two units raw
                pair = chr(0xD83D) + chr(0xDE00)
                for what, fn in (('text', chars_fn), ('an attribute value', attr_fn)):
                    out = run(fn, pair)
                    ok = (out == [('CHARREF', 0x1F600)]) if maxc < 0xFFFF else (out == [('CHARREF', 0x1F600)] or [e for e in out] == [('RAW', 0xD83D), ('RAW', 0xDE00)])
                    if ok:
                        r.ok('%s: U+1F600 in %s' % (label, what), str(out))
                    else:
                        r.violation('FormatterToXML: surrogate pair', '%s: U+1F600 in %s is written as %s' % (label, what, out), common.file_line(fn))
                # cuts
                if maxc == 0xFF:
                    for s in TEXTS:
                        whole = run(chars_fn, s)
                        bad = None
                        for k in range(0, len(s)):
                            ev = whole if k == 0 else run(chars_fn, s[:k]) + run(chars_fn, s[k:])
                            how = 'in one event' if k == 0 else 'as %r then %r' % (s[:k], s[k:])
                            if any(e[0] == 'ERROR' for e in ev):
                                bad = ('a character of XML is refused', 'text %r written %s is refused' % (s, how)); break
                            dec, raw = decode(ev)
                            if ']]>' in raw:
                                bad = ('"]]>" in character data', 'text %r written %s: the output %r contains "]]>"' % (s, how, raw)); break
                            if dec.replace('\r\n', '\n') != s.replace('\r\n', '\n') and dec != s:
                                bad = ('the output does not decode to the text', 'text %r written %s: the output %r reads back as %r' % (s, how, raw, dec)); break
                            if k and ev != whole:
                                bad = ('the cut changes what is written', 'text %r written %s: %r, in one event %r' % (s, how, raw, decode(whole)[1])); break
                        if bad:
                            r.violation('FormatterToXML: %s' % bad[0], '%s: %s' % (label, bad[1]), common.file_line(chars_fn))
                        else:
                            r.ok('%s: text %r' % (label, s), decode(whole)[1])
            except Unsupported as u:
                raise AnalysisBroken('FormatterToXML::characters / writeAttrString outside the interpreted subset: %s' % u)
            except Fault as f:
                r.violation('FormatterToXML: fault', '%s: %s' % (label, f), common.file_line(chars_fn))
    return r
