"""C08-R8 / C04-R13 — a surrogate pair is decoded to its scalar value, in every serializer that decodes one.

Characters above U+FFFF reach the serializers as two UTF-16 code units.  Wherever a serializer has to know the character - to write UTF-8 bytes, a numeric character
reference under an encoding that lacks it, a reference in an HTML attribute - it computes 0x10000 + ((high - 0xD800) << 10) + (low - 0xDC00).  The computation exists
seven times (two named decoders, five inline copies in FormatterToXML / FormatterToHTML).  Each is found through its shift by ten, the expression that is assigned /
returned is evaluated - with the conversions the AST shows and the width of the variable or return type that receives it - for high surrogates from every plane
boundary and low surrogates at both ends, and compared with the definition (Unicode 3.8, D91).  An encoding-dependent wrong character is C08's business (the result
tree changes with the encoding) and C04's (the document does not parse back to the tree)."""
from ..build import AnalysisBroken
from ..mast import walk, strip_casts, pp
from ..facts import short
from . import common

HIGHS = [0xD800, 0xD801, 0xD83D, 0xD83F, 0xD840, 0xD841, 0xD87F, 0xD880, 0xDB3F, 0xDB40, 0xDBBF, 0xDBC0, 0xDBFF]
LOWS = [0xDC00, 0xDC01, 0xDDFF, 0xDE00, 0xDFFF]
NARROW = ('char16_t', 'unsigned short', 'short', 'XalanDOMChar', 'xalanc_1_12::XalanDOMChar', 'wchar_t')


class NotArithmetic(Exception):
    pass


def width_mask(ty):
    t = (ty or '').replace('const', '').strip()
    if t in NARROW:
        return 0xFFFF
    if t in ('unsigned char', 'char', 'signed char'):
        return 0xFF
    if 'long' in t:
        return 0xFFFFFFFFFFFFFFFF
    return 0xFFFFFFFF


def evaluate(e, env):
    k = e.get('k')
    if 'cv' in e and k in ('Int', 'Char', 'Bool') or (k == 'Ref' and 'cv' in e and e.get('d') not in ('local', 'param')):
        return int(e['cv'])
    if k == 'Ref':
        if e.get('id') in env:
            return env[e['id']] & width_mask(e.get('ty'))
        raise NotArithmetic('free variable ' + (e.get('n') or '?'))
    if k == 'Cast':
        v = evaluate(e['e'], env)
        return v & width_mask(e.get('ty')) if (e.get('ty') or '').replace('const', '').strip() in NARROW + ('unsigned char', 'char') else v
    if k == 'Ctor' and len(e.get('args', [])) == 1:
        return evaluate(e['args'][0], env) & width_mask(e.get('cls') or e.get('ty'))
    if k == 'Paren':
        return evaluate(e['e'], env)
    if k == 'Bin':
        a, b = evaluate(e['lhs'], env), evaluate(e['rhs'], env)
        op = e['op']
        if op == '+': return a + b
        if op == '-': return a - b
        if op == '*': return a * b
        if op == '<<': return a << b
        if op == '>>': return a >> b
        if op == '|': return a | b
        if op == '&': return a & b
        if op == '^': return a ^ b
    raise NotArithmetic('%s in %s' % (k, pp(e)[:40]))


def run_rule(res, facts, tier, rid='C08-R8'):
    r = res.rule(rid, 'every place of the serializers that decodes a surrogate pair (found through the shift by ten: two named decoders, five inline copies) yields 0x10000 + '
                 '((high - 0xD800) << 10) + (low - 0xDC00) for high surrogates of every plane boundary and low surrogates at both ends, conversions and the width of the receiving '
                 'variable included', floor=7 * len(HIGHS) * len(LOWS))
    sites = 0
    for usr in facts.astidx:
        a = facts.ast(usr)
        if a is None or a.get('body') is None or '/XMLSupport/' not in a['file']:
            continue
        # statements that carry a shift by ten
        for st in walk(a['body']):
            tgt_ty = None
            expr = None
            if st.get('k') == 'Bin' and st.get('op') == '=':
                expr, tgt_ty = st['rhs'], (strip_casts(st['lhs']) or {}).get('ty')
            elif st.get('k') == 'Return' and st.get('e') is not None:
                expr, tgt_ty = st['e'], a.get('ret')
            elif st.get('k') == 'Decl':
                for v in st.get('vars', []):
                    if v.get('init') is not None and any(y.get('k') == 'Bin' and y.get('op') == '<<' and (y.get('rhs') or {}).get('cv') == 10 for y in walk(v['init'])):
                        expr, tgt_ty = v['init'], v.get('ty')
            if expr is None or not any(y.get('k') == 'Bin' and y.get('op') == '<<' and (strip_casts(y.get('rhs')) or {}).get('cv') == 10 for y in walk(expr)):
                continue
            if st.get('k') == 'Bin' and any(y is not st and y.get('k') == 'Bin' and y.get('op') == '=' and any(z is st for z in walk(y)) for y in []):
                continue
            refs = []
            for y in walk(expr):
                if y.get('k') == 'Ref' and y.get('d') in ('local', 'param') and y.get('id') not in [x for x, _ in refs]:
                    refs.append((y['id'], y.get('n')))
            if len(refs) != 2:
                continue            # encoders (code point -> units) have one variable; they are not this rule's
            shifted = None
            for y in walk(expr):
                if y.get('k') == 'Bin' and y.get('op') == '<<' and (strip_casts(y.get('rhs')) or {}).get('cv') == 10:
                    ids = {z.get('id') for z in walk(y['lhs']) if z.get('k') == 'Ref' and z.get('d') in ('local', 'param')}
                    if len(ids) == 1:
                        shifted = ids.pop()
            if shifted is None:
                continue
            hi_id = shifted
            lo_id = [i for i, _ in refs if i != hi_id][0]
            sites += 1
            fn = short(a.get('fq') or a.get('name') or '?')
            site = '%s: surrogate pair decoded' % fn
            bad = None
            for hi in HIGHS:
                for lo in LOWS:
                    try:
                        v = evaluate(expr, {hi_id: hi, lo_id: lo}) & width_mask(tgt_ty)
                    except NotArithmetic as x:
                        res.broken.append('%s: the decoding expression in %s is outside the arithmetic this rule evaluates (%s)' % (rid, fn, x))
                        bad = 'broken'
                        break
                    want = 0x10000 + ((hi - 0xD800) << 10) + (lo - 0xDC00)
                    if v == want:
                        r.instances += 1
                    elif bad is None:
                        bad = (hi, lo, v, want)
                if bad == 'broken':
                    break
            if bad == 'broken':
                r.instances += 1
            elif bad is not None:
                hi, lo, v, want = bad
                r.violation(site, 'the pair %04X %04X is decoded to U+%X, it is U+%X%s: the character written depends on which serializer / encoding decodes it' %
                            (hi, lo, v, want, ' (the value is held in a %s)' % tgt_ty if width_mask(tgt_ty) == 0xFFFF else ''), common.file_line(a, st))
    if sites < 7:
        res.broken.append('%s: only %d places that decode a surrogate pair were recognised (7 confirmed by hand)' % (rid, sites))
    return r


def run_c04_rule(res, facts, tier):
    return run_rule(res, facts, tier, 'C04-R13')
