"""C12-R5 — the ordered-merge API of MutableNodeRefList (addNodesInDocOrder, three overloads): every node of the other list
reaches this list through addNodeInDocOrder (binary / linear search with duplicate check), except for whole-range transfers,
each of which must carry an ordering justification in the conditions that dominate it:

  replace / append into an empty list : m_nodeList.empty() (or size() == 0) is known true
  append at end()                     : last node of this list precedes the first node transferred
  insert at begin()                   : last node transferred precedes the first node of this list

and in every case the transferred range must be in document order: forward iterators (or whole-vector assignment) of a source
known to be eDocumentOrder, reverse iterators of a source known to be eReverseDocumentOrder.  "Known" means established on every
path by the dominating conditions (forward must-analysis over the function's CFG); precedence conditions are read through
file-local helper predicates whose body is a single return of a conjunction.

A transfer whose justification compares the wrong ends, or has none, is a violation naming the ends.  A mutation of m_nodeList
in these functions that is none of the recognised forms is analysis-broken (exit 2): the rule cannot read it and says so."""
import collections
from ..build import AnalysisBroken
from ..mast import walk, calls, callee, strip_casts, pp, CFG
from ..facts import short, NS
from . import common

ORDER_ENUM = ('eUnknownOrder', 'eDocumentOrder', 'eReverseDocumentOrder')
READS = {'empty', 'size', 'begin', 'end', 'rbegin', 'rend', 'back', 'front', 'getMemoryManager', 'capacity'}
WRITES = {'insert', 'push_back', 'assign', 'swap', 'resize', 'erase', 'clear', 'pop_back', 'reserve'}


def core(e):
    """strip casts and copy-constructor / iterator-adaptor wrappers"""
    while True:
        e = strip_casts(e)
        if isinstance(e, dict) and e.get('k') == 'Ctor' and len(e.get('args', [])) == 1:
            e = e['args'][0]
            continue
        return e


def list_of(e):
    """'this' / 'other' when e denotes this->m_nodeList / <param>.m_nodeList"""
    e = core(e)
    if not isinstance(e, dict) or e.get('k') != 'Member' or e.get('m') != 'm_nodeList':
        return None
    o = strip_casts(e.get('obj'))
    if o is None or o.get('k') == 'This':
        return 'this'
    if o.get('k') == 'Ref' and o.get('d') == 'param':
        return 'other'
    return None


class FnView:
    def __init__(self, facts, a):
        self.facts, self.a = facts, a
        self.locals = {}
        for x in walk(a['body']):
            if x['k'] == 'Decl':
                for v in x.get('vars', []):
                    if v.get('init') is not None and 'const' in (v.get('ty') or ''):
                        self.locals[v['id']] = v['init']

    def resolve(self, e, depth=0):
        e = core(e)
        if isinstance(e, dict) and e.get('k') == 'Ref' and e.get('id') in self.locals and depth < 3:
            return self.resolve(self.locals[e['id']], depth + 1)
        return e

    def end(self, e):
        """(list, 'front'|'back') for expressions denoting an end node of one of the two lists"""
        e = self.resolve(e)
        if not isinstance(e, dict):
            return None
        if e['k'] == 'Un' and e['op'] == '*':
            i = self.resolve(e['e'])
            if isinstance(i, dict) and i['k'] == 'MCall' and i.get('n') in ('begin', 'rbegin') and list_of(i.get('obj')):
                return (list_of(i['obj']), 'front' if i['n'] == 'begin' else 'back')
            inner = self.end(e['e'])      # *node-pointer: the node itself
            return inner
        if e['k'] == 'MCall' and e.get('n') in ('front', 'back') and list_of(e.get('obj')):
            return (list_of(e['obj']), e['n'])
        if e['k'] == 'OpCall' and e['op'] == '[]' and list_of(e['args'][0]):
            i = strip_casts(e['args'][1])
            if i.get('cv') == 0:
                return (list_of(e['args'][0]), 'front')
            if i.get('k') == 'Bin' and i['op'] == '-' and strip_casts(i['rhs']).get('cv') == 1:
                l = strip_casts(i['lhs'])
                if l.get('k') == 'MCall' and l.get('n') == 'size' and list_of(l.get('obj')) == list_of(e['args'][0]):
                    return (list_of(e['args'][0]), 'back')
        return None

    def order_of(self, e):
        """'other' when e reads the m_order of the other list (directly or through a const local)"""
        e = self.resolve(e)
        if isinstance(e, dict) and e.get('k') == 'Member' and e.get('m') == 'm_order':
            o = strip_casts(e.get('obj'))
            if o is not None and o.get('k') == 'Ref' and o.get('d') == 'param':
                return 'other'
            return 'this'
        return None


def subst(e, env):
    """copy of e with parameter references replaced (helper inlining)"""
    if isinstance(e, dict):
        if e.get('k') == 'Ref' and e.get('id') in env and e.get('d') == 'param':
            return env[e['id']]
        return {k: subst(v, env) for k, v in e.items()}
    if isinstance(e, list):
        return [subst(x, env) for x in e]
    return e


def conj(e, br):
    """[(atom, branch)] implied by e evaluating to br"""
    e, br = common.norm_atom(e, br)
    if isinstance(e, dict) and e.get('k') == 'Bin' and ((e['op'] == '&&' and br) or (e['op'] == '||' and not br)):
        return conj(e['lhs'], br) + conj(e['rhs'], br)
    return [(e, br)]


def helper_body(facts, c):
    """the returned expression and parameter ids of a helper whose body is `return <expr>;` (asserts aside)"""
    fn = c.get('fn')
    if not fn or c.get('k') != 'Call':
        return None
    for a in facts.asts(short(fn)):
        stmts = [s for s in a['body'].get('c', []) if not (s['k'] == 'Cast' or pp(s).startswith('(void)'))]
        decls = [s for s in stmts if s['k'] == 'Decl']
        rets = [s for s in stmts if s['k'] == 'Return']
        if len(rets) == 1 and len(decls) + 1 == len(stmts) and len(a['params']) == len(c['args']):
            env = {p['id']: c['args'][i] for i, p in enumerate(a['params'])}
            # const locals of the helper stay symbolic (they never denote list ends)
            return subst(rets[0]['e'], env)
    return None


def before_facts(view, conds):
    """{(endA, endB)}: endA precedes endB in document order, as established by the dominating conditions"""
    out = set()
    todo = []
    for atom, br in conds:
        todo += conj(atom, br)
    depth = 0
    while todo and depth < 200:
        depth += 1
        e, br = todo.pop()
        if not isinstance(e, dict):
            continue
        if e['k'] == 'Call':
            body = helper_body(view.facts, e)
            if body is not None:
                todo += conj(body, br)
            continue
        if e['k'] == 'MCall' and e.get('n') == 'isNodeAfter' and len(e['args']) == 2 and br:
            x, y = view.end(e['args'][0]), view.end(e['args'][1])
            if x and y:
                out.add((y, x))
            continue
        if e['k'] == 'Bin' and e['op'] in ('<', '>', '<=', '>='):
            l, r = view.resolve(e['lhs']), view.resolve(e['rhs'])
            if all(isinstance(z, dict) and z.get('k') == 'MCall' and z.get('n') == 'getIndex' for z in (l, r)):
                x, y = view.end(l.get('obj')), view.end(r.get('obj'))
                if x and y:
                    op = e['op']
                    if not br:
                        op = {'<': '>=', '>': '<=', '<=': '>', '>=': '<'}[op]
                    if op == '<':
                        out.add((x, y))
                    elif op == '>':
                        out.add((y, x))
    return out


def other_orders(view, conds):
    poss = set(ORDER_ENUM)
    for atom, br in conds:
        e, b = common.norm_atom(atom, br)
        if isinstance(e, dict) and e.get('k') == 'Bin' and e['op'] in ('==', '!='):
            for x, y in ((e['lhs'], e['rhs']), (e['rhs'], e['lhs'])):
                if view.order_of(x) == 'other':
                    c = strip_casts(y)
                    nm = c.get('n') if isinstance(c, dict) else None
                    if nm in ORDER_ENUM:
                        eq = (e['op'] == '==') == b
                        poss &= {nm} if eq else (set(ORDER_ENUM) - {nm})
    return poss


def this_empty(conds):
    for atom, br in conds:
        e, b = common.norm_atom(atom, br)
        if not isinstance(e, dict):
            continue
        if e['k'] == 'MCall' and e.get('n') == 'empty' and list_of(e.get('obj')) == 'this' and b:
            return True
        if e['k'] == 'Bin' and e['op'] in ('==', '!='):
            for x, y in ((e['lhs'], e['rhs']), (e['rhs'], e['lhs'])):
                x, y = strip_casts(x), strip_casts(y)
                if isinstance(x, dict) and x.get('k') == 'MCall' and x.get('n') == 'size' and list_of(x.get('obj')) == 'this' and isinstance(y, dict) and y.get('cv') == 0:
                    if (e['op'] == '==') == b:
                        return True
    return False


def src_range(view, first, last):
    """('fwd'|'rev') when [first, last) is other.begin()..end() / other.rbegin()..rend(); None otherwise"""
    f, l = view.resolve(first), view.resolve(last)
    if all(isinstance(z, dict) and z.get('k') == 'MCall' and list_of(z.get('obj')) == 'other' for z in (f, l)):
        if (f['n'], l['n']) == ('begin', 'end'):
            return 'fwd'
        if (f['n'], l['n']) == ('rbegin', 'rend'):
            return 'rev'
    return None


def transfers(view, stmt):
    """yield (kind, direction, node) for whole-range transfers into this->m_nodeList in stmt; ('unknown', text, node) for unreadable mutations"""
    for x in walk(stmt):
        k = x.get('k')
        if k == 'OpCall' and x['op'] == '=' and list_of(x['args'][0]) == 'this':
            if list_of(x['args'][1]) == 'other':
                yield ('replace', 'fwd', x)
            else:
                yield ('unknown', pp(x), x)
        elif k == 'MCall' and list_of(x.get('obj')) == 'this':
            n = x.get('n')
            if n in READS:
                continue
            if n == 'insert' and len(x['args']) == 3:
                pos = view.resolve(x['args'][0])
                d = src_range(view, x['args'][1], x['args'][2])
                where = pos.get('n') if isinstance(pos, dict) and pos.get('k') == 'MCall' and list_of(pos.get('obj')) == 'this' else None
                if d and where in ('begin', 'end'):
                    yield ('prepend' if where == 'begin' else 'append', d, x)
                else:
                    yield ('unknown', pp(x), x)
            elif n == 'assign' and len(x['args']) == 2 and src_range(view, x['args'][0], x['args'][1]):
                yield ('replace', src_range(view, x['args'][0], x['args'][1]), x)
            else:
                yield ('unknown', pp(x), x)
        elif k == 'Call' and (x.get('n') or callee(x).split('::')[-1]) in ('copy', 'copy_n', 'reverse_copy', 'move'):
            tgt = [c for c in calls(x) if (c.get('n') or callee(c).split('::')[-1]) in ('back_inserter', 'inserter', 'front_inserter') and c.get('args') and list_of(c['args'][0]) == 'this']
            if not tgt:
                continue
            nm = x.get('n') or callee(x).split('::')[-1]
            d = src_range(view, x['args'][0], x['args'][1]) if len(x['args']) == 3 else None
            if nm == 'copy' and d and (tgt[0].get('n') or callee(tgt[0]).split('::')[-1]) == 'back_inserter':
                yield ('append', d, x)
            else:
                yield ('unknown', pp(x), x)
        elif k == 'Bin' and x['op'] == '=':
            t = strip_casts(x['lhs'])
            if isinstance(t, dict) and t.get('k') == 'OpCall' and t['op'] == '[]' and list_of(t['args'][0]) == 'this':
                yield ('unknown', pp(x), x)


def functor_inserts_ordered(facts, c):
    """for_each(.., addNodeInDocOrderFunctor(..)): the functor's operator() must call addNodeInDocOrder"""
    fx = [cc for cc in calls(c) if cc.get('k') == 'Ctor' and 'Functor' in (cc.get('cls') or '')]
    for f in fx:
        cls = short(f['cls'])
        for a in facts.asts(cls + '::operator()'):
            if any(cc.get('n') == 'addNodeInDocOrder' for cc in calls(a['body'])):
                return cls
    return None


def r5_merge(res, facts):
    r = res.rule('C12-R5', 'MutableNodeRefList::addNodesInDocOrder: every node of the other list is inserted through addNodeInDocOrder; a whole-range transfer '
                 '(assignment, range insert, copy through back_inserter) is dominated by conditions that justify it — this list empty, or its last node preceding '
                 'the first node transferred (append), or the last node transferred preceding its first node (insert at begin) — and the range is in document '
                 'order given what the conditions establish about the source\'s order flag', floor=7)
    fns = facts.asts('MutableNodeRefList::addNodesInDocOrder')
    if len(fns) < 3:
        raise AnalysisBroken('only %d addNodesInDocOrder overloads (3 expected)' % len(fns))
    for a in sorted(fns, key=lambda a: a['line']):
        view = FnView(facts, a)
        ptype = short(a['params'][0]['ty']).replace('const ', '').replace(' &', '')
        cfg = CFG(a)
        must = common.must_conds(cfg)
        ordered = 0
        for n in cfg.nodes:
            if n.ast is None or n.kind not in ('stmt', 'cond'):
                continue
            conds = must.get(n.id, [])
            for c in calls(n.ast):
                nm = c.get('n') or callee(c).split('::')[-1]
                if nm == 'addNodeInDocOrder':
                    ordered += 1
                elif nm == 'for_each':
                    cls = functor_inserts_ordered(facts, c)
                    if cls:
                        ordered += 1
                        r.ok('addNodesInDocOrder(%s): for_each with %s -> addNodeInDocOrder' % (ptype, cls))
                    else:
                        raise AnalysisBroken('addNodesInDocOrder(%s): for_each with a functor the rule cannot read: %s' % (ptype, pp(c)[:120]))
            for kind, d, x in transfers(view, n.ast):
                site = 'addNodesInDocOrder(%s): %s' % (ptype, pp(x)[:90])
                loc = common.file_line(a, x)
                if kind == 'unknown':
                    raise AnalysisBroken('%s: mutation of m_nodeList in the ordered-merge API that is none of the recognised forms (%s)' % (site, loc))
                orders = other_orders(view, conds) if ptype == 'MutableNodeRefList' else set(ORDER_ENUM)
                need = 'eDocumentOrder' if d == 'fwd' else 'eReverseDocumentOrder'
                if orders != {need}:
                    r.violation(site, 'the range is transferred %s but the conditions dominating it leave the source\'s order flag in %s: the nodes transferred are not known to be in document order'
                                % ('as stored' if d == 'fwd' else 'reversed', sorted(orders)), loc)
                    continue
                s_first = ('other', 'front' if d == 'fwd' else 'back')
                s_last = ('other', 'back' if d == 'fwd' else 'front')
                if this_empty(conds):
                    r.ok(site, 'this list is empty; source is %s, transferred %s' % (need, 'as stored' if d == 'fwd' else 'reversed'))
                    continue
                bf = before_facts(view, conds)
                fmt = lambda p: '%s.%s()' % ('m_nodeList' if p[0] == 'this' else 'other', p[1])
                have = ', '.join('%s precedes %s' % (fmt(x1), fmt(y1)) for x1, y1 in sorted(bf)) or 'no comparison of the two lists\' end nodes'
                if kind == 'replace':
                    r.violation(site, 'this list is overwritten by the other list without being known empty: its nodes are lost', loc)
                elif kind == 'append':
                    want = (('this', 'back'), s_first)
                    if want in bf:
                        r.ok(site, 'append justified: %s precedes %s' % (fmt(want[0]), fmt(want[1])))
                    else:
                        r.violation(site, 'range appended to a non-empty list; required %s precedes %s, established: %s — nodes may end up out of document order or twice'
                                    % (fmt(want[0]), fmt(want[1]), have), loc)
                else:
                    want = (s_last, ('this', 'front'))
                    if want in bf:
                        r.ok(site, 'insert at begin justified: %s precedes %s' % (fmt(want[0]), fmt(want[1])))
                    else:
                        r.violation(site, 'range inserted in front of a non-empty list; required %s precedes %s, established: %s — nodes may end up out of document order or twice'
                                    % (fmt(want[0]), fmt(want[1]), have), loc)
        if ordered == 0:
            r.violation('addNodesInDocOrder(%s)' % ptype, 'no path inserts through addNodeInDocOrder', common.file_line(a))
        elif ptype != 'MutableNodeRefList':
            r.ok('addNodesInDocOrder(%s): node by node through addNodeInDocOrder' % ptype)
    # the single-node insertion: raw addNode only into an empty list; otherwise vector insert at the searched point
    for a in facts.asts('MutableNodeRefList::addNodeInDocOrder'):
        cfg = CFG(a)
        must = common.must_conds(cfg)
        for n, c in common.find_call_nodes(cfg, 'addNode'):
            site = 'addNodeInDocOrder: raw addNode'
            if this_empty(must.get(n.id, [])):
                r.ok(site, 'only when the list is empty')
            else:
                r.violation(site, 'raw addNode into a list not known to be empty', common.file_line(a, c))
        # the variables by role: the flag is the local that receives the result of findInsertionPoint*(), the insertion point the local that call fills (4th argument)
        flag_ids, point_ids = set(), set()
        searches = []
        for x in walk(a['body']):
            if x['k'] == 'Bin' and x['op'] == '=':
                c = strip_casts(x['rhs'])
                if isinstance(c, dict) and c.get('k') == 'Call' and (c.get('n') or callee(c).split('::')[-1]).startswith('findInsertionPoint'):
                    l = strip_casts(x['lhs'])
                    if l is not None and l.get('k') == 'Ref' and l.get('d') == 'local':
                        flag_ids.add(l['id'])
                        searches.append((x, c))
                        if len(c.get('args', [])) >= 4:
                            p4 = strip_casts(c['args'][3])
                            if p4 is not None and p4.get('k') == 'Ref':
                                point_ids.add(p4.get('id'))
        node_ids = {p['id'] for p in a['params'] if 'XalanNode' in (p.get('ty') or '')}
        if not flag_ids:
            raise AnalysisBroken('addNodeInDocOrder: no local receives the result of an insertion-point search')
        for n, c in common.find_call_nodes(cfg, 'insert'):
            if list_of(c.get('obj')) != 'this':
                continue
            site = 'addNodeInDocOrder: m_nodeList.insert'
            conds = must.get(n.id, [])
            guarded = any((strip_casts(common.norm_atom(atom, br)[0]) or {}).get('k') == 'Ref' and strip_casts(common.norm_atom(atom, br)[0]).get('id') in flag_ids and
                          common.norm_atom(atom, br)[1] for atom, br in conds)
            pos = pp(c['args'][0]) if c['args'] else ''
            at_point = bool(c['args']) and any(y.get('k') == 'Ref' and y.get('id') in point_ids for y in walk(c['args'][0]))
            if guarded and at_point:
                r.ok(site, 'at the insertion point the search found, under "the search says insert"')
            else:
                r.violation(site, 'insert at %s %s: the duplicate / position search result is not what decides the insertion' %
                            (pos, 'under the search result' if guarded else 'not under "the search says insert"'), common.file_line(a, c))
        # every value the flag / the insertion point receive comes from a search over the whole list for this node
        for x, c in searches:
            site = 'addNodeInDocOrder: search %s' % (c.get('n') or callee(c).split('::')[-1])
            args = [strip_casts(z) for z in c['args'][:4]]
            whole = (len(args) == 4 and args[0] is not None and args[0].get('k') == 'Ref' and args[0].get('id') in node_ids and
                     pp(args[1]) == 'm_nodeList.begin()' and pp(args[2]) == 'm_nodeList.end()')
            if whole:
                r.ok(site, 'search over [begin, end) for the node')
            else:
                r.violation(site, 'the search is run with (%s), not over the whole list for the node being added' % ', '.join(pp(z) for z in args), common.file_line(a, x))
    return r
