"""C01-R7 — attribute value templates (XSLT 1.0 7.6.2) by interpretation.

The constructor AVT::AVT, which splits an attribute value into literal parts and expressions, is interpreted on every string of up to 6 characters over {a, {, }, '} (and a
few with a double quote).  StringTokenizer is modelled by its contract (delimiters are returned as tokens); createAVTPart records a part; a problem() of error severity
ends the construction.  Required: `{{` and `}}` stand for one brace; `{` ... `}` is an expression, inside which braces are literal only within quotes; a single `}` outside
an expression, a `{` inside one, or a missing `}` is an error (7.6.2); adjacent literal text is one part.  An empty expression `{}` is left to the XPath parser (error)."""
import itertools
from ..build import AnalysisBroken
from ..mast import Machine, Unsupported, callee, strip_casts, pp
from ..facts import NS
from . import common


class Reject(Exception):
    pass


class Tokenizer:
    def __init__(self, s, delims):
        self.toks = []
        cur = ''
        for ch in s:
            if ch in delims:
                if cur:
                    self.toks.append(cur); cur = ''
                self.toks.append(ch)
            else:
                cur += ch
        if cur:
            self.toks.append(cur)
        self.pos = 0


class AMach(Machine):
    def __init__(self, world, env):
        super().__init__(env, call_hook=world.hook, global_hook=world.glob)
        self.world = world
        self.fuel = 3000

    def ev(self, e):
        k = e['k']
        if k == 'Init':
            return [self.ev(x) for x in e['c']]
        if k == 'Index':
            b = self.ev(e['b'])
            if isinstance(b, str):
                i = int(self.ev(e['i']))
                return ord(b[i]) if i < len(b) else 0
        if k == 'Un' and e['op'] == '++':
            t = strip_casts(e['e'])
            if t.get('k') == 'Member' and t.get('m') == 'm_partsSize':
                old = self.env['.m_partsSize']
                self.env['.m_partsSize'] = old + 1
                return old if e.get('post') else old + 1
        if k == 'Bin' and e['op'] == '=':
            t = strip_casts(e['lhs'])
            if t.get('k') == 'Index':
                # m_parts[m_partsSize++] = createAVTPart(...): the part was recorded by the call
                self.ev(t['i'])
                return self.ev(e['rhs'])
        return super().ev(e)


class AWorld:
    def __init__(self, facts):
        self.facts = facts
        self.parts = []
        self.depth = 0
        self.eError = facts.enumconst.get(NS + 'ProblemListenerBase::eError')
        if self.eError is None:
            raise AnalysisBroken('ProblemListenerBase::eError not found')

    def glob(self, name):
        n = name.split('::')[-1]
        t = self.facts.table(name, must=False)
        if t is not None and 'char16_t' in (t.get('type') or ''):
            out = ''
            for c in self.facts.resolve(t['val']):
                c = c.get('val', c.get('v')) if isinstance(c, dict) else c
                if c == 0:
                    break
                out += chr(c)
            return out
        return ('GLOBAL', n)

    def hook(self, m, c):
        k = c['k']
        n = c.get('n') or callee(c).split('::')[-1]
        cls = c.get('cls') or ''
        if n == '__assert_fail':
            raise Unsupported('assertion fails: ' + (pp(c['args'][0])[:80] if c.get('args') else ''))
        if k == 'Ctor':
            if cls.endswith('StringTokenizer'):
                a = [m.ev(x) for x in c['args']]
                if len(a) != 3 or not a[2]:
                    raise Unsupported('StringTokenizer arguments')
                return Tokenizer(a[0], a[1])
            if cls.endswith('XalanDOMString'):
                return ''
            if 'GetCachedString' in cls:
                return ''
            if len(c.get('args', [])) == 1:
                return m.ev(c['args'][0])
            return 'OBJ'
        if k == 'OpCall':
            op = c['op']
            if op == '[]':
                s = m.ev(c['args'][0]); i = int(m.ev(c['args'][1]))
                if isinstance(s, str):
                    return ord(s[i]) if i < len(s) else 0
                return 0
            if op == '=' and len(c['args']) == 2:
                v = m.ev(c['args'][1])
                m.assign(strip_casts(c['args'][0]), v)
                return v
            return NotImplemented
        if k == 'Call':
            if n == 'equals':
                a, b = m.ev(c['args'][0]), m.ev(c['args'][1])
                if isinstance(b, list):
                    b = ''.join(chr(x) for x in b if x)
                return int(a == b)
            if n == 'length':
                return len(m.ev(c['args'][0]))
            if n == 'getMessage':
                return 'MSG'
        if k == 'MCall':
            o = c.get('obj')
            ov = m.ev(o) if o is not None and strip_casts(o).get('k') != 'This' else None
            if isinstance(ov, Tokenizer):
                if n == 'countTokens':
                    return len(ov.toks) - ov.pos
                if n == 'hasMoreTokens':
                    return int(ov.pos < len(ov.toks))
                if n == 'nextToken':
                    if ov.pos >= len(ov.toks):
                        raise Unsupported('StringTokenizer::nextToken past the end')
                    t = ov.toks[ov.pos]; ov.pos += 1
                    if c.get('args'):
                        m.assign(strip_casts(c['args'][0]), t)
                        return 0
                    return t
            if isinstance(ov, str) and cls.endswith('XalanDOMString'):
                tgt = strip_casts(o)
                if n == 'append':
                    a = [m.ev(x) for x in c['args']]
                    add = a[0] if len(a) == 1 else chr(a[1]) * a[0]
                    m.assign(tgt, ov + add); return 0
                if n == 'clear':
                    m.assign(tgt, ''); return 0
                if n == 'empty':
                    return int(not ov)
                if n == 'length':
                    return len(ov)
                if n == 'c_str':
                    return ov
            if n == 'createAVTPart':
                a = [m.ev(x) for x in c['args']]
                if len(a) == 2:
                    self.parts.append(('text', a[0][:a[1]]))
                else:
                    self.parts.append(('expr', a[1][:a[2]]))
                return 'PART'
            if n == 'problem':
                a = [m.ev(x) for x in c['args'][:2]]
                if a[1] == self.eError:
                    raise Reject('problem')
                return 0
            if n in ('getPooledString', 'getMemoryManager', 'get'):
                return 'OBJ'
            if n == 'allocateXalanDOMCharVector':
                a = [m.ev(x) for x in c['args']]
                self.parts.append(('simple', a[0][:a[1]]))
                return 'VEC'
            if n == 'allocateAVTPartPointerVector':
                return 'PARTS'
            if cls.endswith('AVT') and c.get('usr'):
                a = self.facts.ast(c['usr'])
                if a is not None and a.get('body') is not None:
                    env = {p['id']: m.ev(x) for p, x in zip(a['params'], c['args'])}
                    sub = AMach(self, env)
                    r = sub.call(a['body'])
                    for p, x in zip(a['params'], c['args']):
                        if p.get('ty', '').rstrip().endswith('XalanDOMString &'):
                            m.assign(strip_casts(x), sub.env[p['id']])
                    return r
        return NotImplemented


def spec(s):
    """XSLT 1.0 7.6.2: list of parts, or None for an error"""
    parts, lit, i, n = [], '', 0, len(s)
    while i < n:
        c = s[i]
        if c == '{':
            if s.startswith('{{', i):
                lit += '{'; i += 2; continue
            j = i + 1; expr = ''
            while True:
                if j >= n:
                    return None
                ch = s[j]
                if ch in '\'"':
                    k = s.find(ch, j + 1)
                    if k < 0:
                        return None
                    expr += s[j:k + 1]; j = k + 1; continue
                if ch == '{':
                    return None
                if ch == '}':
                    break
                expr += ch; j += 1
            if lit:
                parts.append(('text', lit)); lit = ''
            parts.append(('expr', expr))
            i = j + 1
        elif c == '}':
            if s.startswith('}}', i):
                lit += '}'; i += 2; continue
            return None
        else:
            lit += c; i += 1
    if lit:
        parts.append(('text', lit))
    return parts


def run_rule(res, facts, tier):
    r = res.rule('C01-R7', "attribute value templates: AVT's constructor interpreted on every string of up to 6 characters over {a, {, }, '} plus cases with double quotes: the parts "
                 '(literal text with {{ }} unescaped; expressions, in which braces are literal only inside quotes) are the ones XSLT 1.0 7.6.2 defines, and a single } outside an '
                 'expression, a { inside one or a missing } is an error', floor=4000)
    cands = [a for a in facts.asts('AVT::AVT', must=False) if a.get('body') is not None and len(a['params']) == 5]
    if len(cands) != 1:
        raise AnalysisBroken('AVT::AVT(5 parameters): %d bodies' % len(cands))
    a = cands[0]
    w = AWorld(facts)
    maxlen = 7 if tier == 'thorough' else 6
    strings = []
    for n in range(0, maxlen + 1):
        strings += [''.join(t) for t in itertools.product("a{}'", repeat=n)]
    strings += ['{"}"}', 'a{"\'"}b', '{\'"\'}', '"{a}"', '{a}{b}', 'x{a}y{b}z', '{{{a}}}', '{a}}}', '{{a}}', "{concat('{','}')}", '{"a}', 'a"b', '"', "'"]
    reported = 0
    for s in strings:
        w.parts = []
        p = a['params']
        env = {p[0]['id']: 'CCTX', p[1]['id']: 0, p[2]['id']: 'name', p[3]['id']: s, p[4]['id']: 'RES',
               '.m_parts': 0, '.m_partsSize': 0, '.m_simpleString': 0, '.m_simpleStringLength': 0, '.m_name': 'name'}
        m = AMach(w, env)
        site = 'attribute value %r' % s
        try:
            try:
                m.call(a['body'])
                got = list(w.parts)
            except Reject:
                got = None
        except Unsupported as u:
            msg = str(u)
            if 'assertion fails' in msg or 'past the end' in msg:
                got = 'FAULT: ' + msg
            else:
                raise AnalysisBroken('AVT::AVT outside the interpreted subset on %s: %s' % (site, u))
        want = spec(s)
        if got is not None and not isinstance(got, str) and len(got) == 1 and got[0][0] == 'simple':
            got = [('text', got[0][1])] if got[0][1] else []
        if got == want:
            r.ok(site, 'error' if want is None else ' + '.join('%s %r' % x for x in want) or 'empty')
            continue
        reported += 1
        if reported <= 5:
            r.violation(site, 'the constructor yields %s; XSLT 1.0 7.6.2: %s' % ('an error' if got is None else got, 'an error' if want is None else want), common.file_line(a))
        else:
            r.instances += 1
    r.note('%d attribute values' % len(strings))
    return r
