"""C03 — no input crashes; every failure is a reported error.  Clause rules R1..R7 (DESIGN.md §3)."""
import collections, re
from ..build import AnalysisBroken
from ..mast import walk, calls, callee, strip_casts, pp, CFG
from ..facts import short
from . import common, xpathops


# ----------------------------------------------------------------------------------------------- helpers
def cfg_node_of(cfg, target):
    """the CFG node whose AST contains `target` (identity)"""
    for n in cfg.nodes:
        if n.ast is None:
            continue
        for x in walk(n.ast):
            if x is target:
                return n
    return None


def fn_candidates(facts, pred_text):
    """functions whose serialized AST contains the text (cheap pre-filter on the raw JSON line)"""
    import os, json
    needle = pred_text.encode()
    for fn in sorted({v[0] for v in facts.astidx.values()}):
        with open(os.path.join(facts.dir, fn), 'rb') as fh:
            for line in fh:
                if needle in line:
                    a = json.loads(line)
                    if facts.lib_path(a['file']) or common.is_fixture(a):
                        yield a


def fixture_summary(rule, rname, fired, all_fx):
    """fixtures named bad_<r>_* must fire, good_<r>_* must not"""
    tag = rname.lower()
    for name in sorted(all_fx):
        base = name.split('::')[-1]
        if not (base.startswith('bad_%s_' % tag) or base.startswith('good_%s_' % tag)):
            continue
        must = base.startswith('bad_')
        if must == (name in fired):
            rule.ok('fixture %s' % base, 'fires' if must else 'silent')
        else:
            rule.res.broken.append('%s: checker fixture %s %s' % (rule.id, base, 'was not reported' if must else 'was reported although it is correct'))


# ----------------------------------------------------------------------------------------------- R3
INT_WORST = {'int': 11, 'unsigned int': 10, 'long': 20, 'unsigned long': 20, 'short': 6, 'unsigned short': 5, 'char': 4, 'long long': 20, 'unsigned long long': 20}
DBL_MAX_INT_DIGITS = 309


def fmt_worst(fmt, args):
    """worst-case output length of a printf format given argument ASTs; None = unbounded"""
    total = 0; ai = 0
    for m in re.finditer(r'%([-+ #0]*)(\d+|\*)?(?:\.(\d+|\*))?(hh|h|ll|l|L|z|j|t)?([diouxXfFeEgGaAcspn%])|([^%]+)', fmt):
        if m.group(6) is not None:
            total += len(m.group(6)); continue
        flags, width, prec, lenm, conv = m.group(1), m.group(2), m.group(3), m.group(4), m.group(5)
        if conv == '%':
            total += 1; continue
        if width == '*' or prec == '*':
            return None
        arg = args[ai] if ai < len(args) else None
        ai += 1
        w = int(width) if width else 0
        if conv in 'di':
            ty = (strip_casts(arg) or {}).get('ty', 'long') if lenm else (arg or {}).get('ty', 'int')
            n = INT_WORST.get(ty.replace('const ', ''), 20)
            if prec:
                n = max(n, int(prec) + 1)
        elif conv in 'uoxX':
            n = 22
        elif conv in 'fF':
            n = 1 + DBL_MAX_INT_DIGITS + 1 + (int(prec) if prec is not None else 6)
        elif conv in 'eEgGaA':
            n = (int(prec) if prec is not None else 6) + 10
        elif conv == 'c':
            n = 1
        elif conv == 'p':
            n = 18
        elif conv == 's':
            sa = strip_casts(arg)
            if sa is not None and sa.get('k') == 'Str':
                n = len(sa['v'])
            elif prec is not None:
                n = int(prec)
            else:
                return None
        else:
            return None
        total += max(n, w)
    return total


def r3_buffers(res, facts):
    r = res.rule('C03-R3', 'every sprintf/strcpy-class write into a fixed-size array fits for every value of its argument types '
                 '(%.Nf of a double: sign + 309 digits + point + N)', floor=6)
    fired = set(); fx = set()
    seen_fn = {}
    cands = []
    for needle in ('"sprintf"', '"vsprintf"', '"strcpy"', '"strcat"'):
        for a in fn_candidates(facts, needle):
            seen_fn[a['usr']] = a
    for a in seen_fn.values():
        if common.is_fixture(a):
            fx.add(a['name'])
        locals_ty = {}
        inits = {}
        for x in walk(a['body']):
            if x['k'] == 'Decl':
                for v in x['vars']:
                    locals_ty[v['id']] = v['ty']
                    if v.get('init') is not None:
                        inits[v['id']] = v['init']
        for c in calls(a['body']):
            n = c.get('n')
            if n not in ('sprintf', 'vsprintf', 'strcpy', 'strcat') or c['k'] != 'Call':
                continue
            dest = strip_casts(c['args'][0])
            site = '%s: %s into %s' % (short(a['fq']), n, pp(dest))
            loc = common.file_line(a, c)
            m = re.match(r'^(?:const )?(?:char|wchar_t|char16_t)\[(\d+)\]$', (dest or {}).get('ty', '')) if dest else None
            if dest is None or dest.get('k') != 'Ref' or not m:
                if common.is_fixture(a):
                    continue
                r.violation(site, 'destination is not a local fixed-size array: size cannot be established', loc)
                continue
            size = int(m.group(1))
            if n != 'sprintf':
                src = strip_casts(c['args'][1])
                if src is not None and src.get('k') == 'Str' and len(src['v']) + 1 <= size:
                    r.ok(site)
                else:
                    (fired.add(a['name']) if common.is_fixture(a) else r.violation(site, 'unbounded source copied into char[%d]' % size, loc))
                continue
            fmts = []
            f = strip_casts(c['args'][1])
            if f is not None and f.get('k') == 'Str':
                fmts = [f['v']]
            else:
                # *ptr where ptr walks a constant table of formats
                base = f
                while base is not None and base.get('k') in ('Un', 'Index'):
                    base = strip_casts(base.get('e') or base.get('b'))
                tab = None
                if base is not None and base.get('k') == 'Ref' and base.get('d') == 'local' and base['id'] in inits:
                    i0 = strip_casts(inits[base['id']])
                    if i0 is not None and i0.get('q'):
                        tab = facts.table(short(i0['q']), must=False)
                elif base is not None and base.get('q'):
                    tab = facts.table(short(base['q']), must=False)
                if tab is not None:
                    for cell in tab['val']:
                        if isinstance(cell, dict) and 'str' in cell:
                            fmts.append(cell['str'])
            if not fmts:
                (fired.add(a['name']) if common.is_fixture(a) else r.violation(site, 'format string cannot be resolved to constants', loc))
                continue
            worst = 0; worst_f = None
            for fs in fmts:
                w = fmt_worst(fs, c['args'][2:])
                if w is None:
                    worst = None; worst_f = fs; break
                if w > worst:
                    worst, worst_f = w, fs
            if worst is not None and worst + 1 <= size:
                r.ok(site, 'worst case %d+1 bytes (%s) <= %d' % (worst, worst_f, size))
            elif common.is_fixture(a):
                fired.add(a['name'])
            else:
                r.violation(site, 'format "%s" can write %s bytes into char[%d]' % (worst_f, 'unbounded' if worst is None else worst + 1, size), loc)
    fixture_summary(r, 'R3', fired, fx)
    return r


# ----------------------------------------------------------------------------------------------- R4
CMP = {'<': ('upper', 'lower'), '<=': ('upper', 'lower'), '>': ('lower', 'upper'), '>=': ('lower', 'upper')}
DS_CMP = {'lessThan': '<', 'lessThanOrEqual': '<=', 'greaterThan': '>', 'greaterThanOrEqual': '>=', 'equal': '==', 'notEqual': '!='}
EXEMPT_F2I = {
    'XalanVector::grow': 'operand is m_size * 1.6 + 0.5 with m_size an element count that already fits memory',
    'XalanMap::doCreateEntry': 'operand is m_loadFactor * size(), bounded by the bucket count',
    'XalanMap::rehash': 'operand is 1.6 * size(), an element count that already fits memory',
}


def var_names(e):
    return {x['id'] for x in walk(e) if x['k'] == 'Ref' and x.get('d') in ('local', 'param')}


def bounds_from(conds, vid, aliases):
    """which facts do the dominating conditions give about variable vid: set of 'upper','lower','notnan','nonzero','not-1'"""
    out = set()
    ids = {vid} | aliases.get(vid, set())
    for atom, br in conds:
        core, eff = common.norm_atom(atom, br)
        if core is None:
            continue
        op = None; l = r = None
        if core.get('k') == 'Bin' and core['op'] in ('<', '<=', '>', '>=', '==', '!='):
            op, l, r = core['op'], core['lhs'], core['rhs']
        elif core.get('k') in ('Call', 'MCall') and (core.get('n') in DS_CMP) and len(core['args']) == 2:
            op, l, r = DS_CMP[core['n']], core['args'][0], core['args'][1]
        elif core.get('k') in ('Call', 'MCall') and core.get('n') in ('isNaN',) and core['args'] and (var_names(core['args'][0]) & ids):
            if not eff:
                out.add('notnan')
            continue
        elif core.get('k') in ('Call', 'MCall') and core.get('n') in ('isnan',) and core['args'] and (var_names(core['args'][0]) & ids):
            if not eff:
                out.add('notnan')
            continue
        if op is None:
            continue
        lv, rv = var_names(l) & ids, var_names(r) & ids
        if lv and rv:
            # v compared with an expression of itself: long(v) == v gives no bound; v == v / v != v is the NaN test
            sl, sr = strip_casts(l), strip_casts(r)
            if sl.get('k') == 'Ref' and sr.get('k') == 'Ref' and sl.get('id') == sr.get('id'):
                if (op == '==' and eff) or (op == '!=' and not eff):
                    out.add('notnan')
            continue
        if not lv and not rv:
            continue
        if rv:  # mirror so that the variable is on the left
            op = {'<': '>', '<=': '>=', '>': '<', '>=': '<=', '==': '==', '!=': '!='}[op]
            l, r = r, l
        other = strip_casts(r)
        cval = other.get('cv') if other is not None else None
        if cval is None and other is not None and other.get('k') == 'Float':
            cval = other.get('v')
        if cval is None and other is not None and other.get('k') == 'Un' and other['op'] == '-' and strip_casts(other['e']).get('k') == 'Float':
            cval = -strip_casts(other['e'])['v']
        if op in CMP:
            t, f = CMP[op]
            out.add(t if eff else f)
            if eff:
                out.add('notnan')
            if cval is not None:
                if eff and op == '>' and cval >= 0: out |= {'nonzero', 'not-1'}
                if eff and op == '>=' and cval > 0: out |= {'nonzero', 'not-1'}
                if eff and op == '>=' and cval == 0: out |= {'not-1'}
                if eff and op in ('>', '>=') and cval >= -1 and op == '>': out |= {'not-1'}
        elif op == '==':
            if eff:
                out |= {'upper', 'lower', 'notnan'}
            elif cval == 0:
                out.add('nonzero')
            elif cval == -1:
                out.add('not-1')
        elif op == '!=':
            if not eff:
                out |= {'upper', 'lower', 'notnan'}
            elif cval == 0:
                out.add('nonzero')
            elif cval == -1:
                out.add('not-1')
    return out


def shifted_copy_of(e):
    """if e is  w,  w + c,  w - c  or  cond ? (such) : (such)  over a single variable w and constants: id of w, else None"""
    e = strip_casts(e)
    if e is None:
        return None
    if e.get('k') == 'Ref' and e.get('d') in ('local', 'param'):
        return e['id']
    if e.get('k') == 'Bin' and e['op'] in ('+', '-'):
        l, r = strip_casts(e['lhs']), strip_casts(e['rhs'])
        if r is not None and (r.get('k') in ('Float', 'Int') or 'cv' in r):
            return shifted_copy_of(l)
        return None
    if e.get('k') == 'Cond':
        a, b = shifted_copy_of(e['t']), shifted_copy_of(e['f'])
        return a if a is not None and a == b else None
    return None


def local_aliases(a):
    """locals initialised once as a copy of another variable shifted by a constant (x = w, x = w - 1, x = c ? w + 0.5 : w - 0.5):
    a finite bound on w is a finite bound on x.  A value computed by a call (round(w)) is not an alias."""
    al = collections.defaultdict(set)
    for x in walk(a['body']):
        if x['k'] == 'Decl':
            for v in x['vars']:
                if v.get('init') is None:
                    continue
                w = shifted_copy_of(v['init'])
                if w is not None and str(v.get('ty', '')).startswith('const'):
                    al[v['id']].add(w)
    return al


def r4_casts(res, facts):
    r = res.rule('C03-R4', 'every floating-point to integer conversion is dominated by conditions that bound its operand from above and below and exclude NaN; '
                 'integer / and % on converted operands additionally exclude a zero divisor and the MIN/-1 overflow', floor=8)
    fired = set(); fx = set()
    exempt_seen = collections.Counter()
    for a in fn_candidates(facts, '"FloatingToIntegral"'):
        isfx = common.is_fixture(a)
        if isfx:
            fx.add(a['name'])
        pat = short(a['name'])
        tmpl = re.sub(r'<.*>', '', pat)
        if tmpl in EXEMPT_F2I:
            exempt_seen[tmpl] += 1
            continue
        cfg = CFG(a)
        must = common.must_conds(cfg)
        aliases = local_aliases(a)
        # division rule
        for x in walk(a['body']):
            if x['k'] == 'Bin' and x['op'] in ('%', '/') and not x.get('ty', '').startswith(('double', 'float')):
                rc = [y for y in walk(x['rhs']) if y['k'] == 'Cast' and y.get('ck') == 'FloatingToIntegral']
                if not rc:
                    continue
                node = cfg_node_of(cfg, x)
                conds = must.get(node.id, []) if node else []
                for vid in var_names(rc[0]['e']):
                    b = bounds_from(conds, vid, aliases)
                    site = '%s: %s' % (short(a['fq']), pp(x))
                    if 'nonzero' in b and 'not-1' in b:
                        r.ok(site)
                    elif isfx:
                        fired.add(a['name'])
                    else:
                        r.violation(site, 'integer %s on converted doubles: divisor not shown to be non-zero%s' % (x['op'], '' if 'not-1' in b else ' and different from -1 (LONG_MIN %s -1 traps)' % x['op']), common.file_line(a, x))
        sites = collections.OrderedDict()
        for x in walk(a['body']):
            if x['k'] == 'Cast' and x.get('ck') == 'FloatingToIntegral':
                key = (pp(x['e']), x['to'])
                sites.setdefault(key, []).append(x)
        for (txt, to), xs in sites.items():
            bad = None
            for x in xs:
                vs = {y['id'] for y in walk(x['e']) if y['k'] == 'Ref' and y.get('d') in ('local', 'param') and str(y.get('ty', '')).replace('const ', '') in ('double', 'float', 'long double')}
                if not vs and not any(y['k'] in ('Call', 'MCall', 'Member') for y in walk(x['e'])):
                    continue   # constant
                node = cfg_node_of(cfg, x)
                conds = must.get(node.id, []) if node else []
                missing = set()
                if not vs:
                    missing = {'upper', 'lower', 'notnan'}
                for vid in vs:
                    b = bounds_from(conds, vid, aliases)
                    missing |= ({'upper', 'lower', 'notnan'} - b)
                if missing:
                    bad = (x, missing)
                    break
            site = '%s: (%s)%s' % (short(a['fq']), to, txt)
            if bad is None:
                r.ok(site, 'operand bounded on every path')
            elif isfx:
                fired.add(a['name'])
            else:
                x, missing = bad
                r.violation(site, 'conversion of a double to %s without a dominating %s' % (to, ' / '.join(sorted({'upper': 'upper bound', 'lower': 'lower bound', 'notnan': 'NaN exclusion'}[m] for m in missing))), common.file_line(a, x))
    for k, why in EXEMPT_F2I.items():
        if exempt_seen[k]:
            r.note('exempt: %s (%d instantiations) — %s' % (k, exempt_seen[k], why))
    fixture_summary(r, 'R4', fired, fx)
    return r


# ----------------------------------------------------------------------------------------------- R5
UNSIGNED = ('unsigned long', 'unsigned int', 'unsigned short', 'unsigned char', 'char16_t', 'const unsigned long', 'const unsigned int')


def r5_wrap(res, facts):
    r = res.rule('C03-R5', 'no unsigned subtraction a - b where a < b is established on every path to it (the difference wraps; reads past the end follow)', floor=2)
    fired = set(); fx = set(); n_checked = 0; reported = set()
    for a in fn_candidates(facts, '"op":"-"'):
        subs = [x for x in walk(a['body']) if x['k'] == 'Bin' and x['op'] == '-' and x.get('ty') in UNSIGNED
                and strip_casts(x['lhs']).get('k') == 'Ref' and strip_casts(x['rhs']).get('k') == 'Ref']
        if not subs:
            continue
        isfx = common.is_fixture(a)
        if isfx:
            fx.add(a['name'])
        has_lt = any(x['k'] == 'Bin' and x['op'] == '<' for x in walk(a['body']))
        if not has_lt:
            n_checked += len(subs)
            continue
        cfg = CFG(a)
        must = common.must_conds(cfg)
        for x in subs:
            n_checked += 1
            l, rr = strip_casts(x['lhs']), strip_casts(x['rhs'])
            node = cfg_node_of(cfg, x)
            conds = must.get(node.id, []) if node else []
            wraps = False
            for atom, br in conds:
                core, eff = common.norm_atom(atom, br)
                if core is not None and core.get('k') == 'Bin' and core['op'] in ('<', '>') and eff:
                    cl, cr = strip_casts(core['lhs']), strip_casts(core['rhs'])
                    if core['op'] == '>':
                        cl, cr = cr, cl
                    if cl.get('k') == 'Ref' and cr.get('k') == 'Ref' and cl.get('id') is not None and cl.get('id') == l.get('id') and cr.get('id') == rr.get('id'):
                        wraps = True
            site = '%s: %s' % (short(a['name']), pp(x))
            if not wraps:
                continue
            if isfx:
                fired.add(a['name'])
            elif site in reported:
                continue
            else:
                reported.add(site)
                r.violation(site, 'evaluated only where %s < %s holds: the unsigned difference wraps around (always huge), so the guard it feeds is vacuous' % (pp(l), pp(rr)), common.file_line(a, x))
    r.instances += 0
    r.ok('unsigned subtractions of two variables examined: %d' % n_checked)
    fixture_summary(r, 'R5', fired, fx)
    return r


# ----------------------------------------------------------------------------------------------- R7
def r7_pattern_grammar(res, facts):
    r = res.rule('C03-R7', "pattern grammar obligation: every path from an emission of a '//' step in LocationPathPattern to its exit passes RelativePathPattern() or error()", floor=2)
    n, bad = xpathops.dslash_obligation(facts)
    for b in bad:
        r.violation('LocationPathPattern emission of %s' % b['code'].split('::')[-1], "a pattern may end right after '//': the dangling step reaches getTargetData, which has no case for it (null target name)", '%s:%s' % (b['file'], b['line']))
    for i in range(n - len(bad)):
        r.ok("'//' emission %d followed by RelativePathPattern or error on every path" % i)
    return r


def run(res, facts, tier):
    r3_buffers(res, facts)
    r4_casts(res, facts)
    r5_wrap(res, facts)
    r7_pattern_grammar(res, facts)


# ----------------------------------------------------------------------------------------------- R1
ALLOWED_ESCAPE = {'xercesc_3_2::OutOfMemoryException', 'std::bad_alloc'}
# throw sites whose trigger is an environment / internal-invariant failure, each replayed (DESIGN.md §3 C03-R1)
ASSUME_THROW = {
    ('xalanc_1_12::XalanDOMString::TranscodingError', 'doTranscode'):
        'raised only when the local-code-page transcoder reports failure; the Xerces transcoders of this build substitute instead of failing '
        '(replayed: invalid bytes as parameter name, non-ASCII xsl:message under the C locale: status -1 with a message)',
    ('xalanc_1_12::XPathExceptionFunctionNotSupported', 'InstallFunction'):
        'thrown when a built-in function name is missing from s_functionNames: an internal table invariant (decided by C02-R1), not input',
}
# call edges not followed, one named edge each
ASSUME_EDGE = {
    ('XalanOutputStreamPrintWriter::~XalanOutputStreamPrintWriter', 'XalanOutputStreamPrintWriter::flush'):
        'XalanOutputStream::flushBuffer empties its buffer under a CollectionClearGuard before a write error propagates, so the flush in the destructor has nothing '
        'to write (replayed with an output callback that reports failure: status -1, no abort)',
}
# exceptions raised by external library entry points (what Xerces documents for its parsers)
EXTERNAL_THROWS = [
    (re.compile(r'^xercesc_3_2::(SAXParser|SAX2XMLReaderImpl|SAX2XMLReader|XMLReader|Parser|XercesDOMParser|AbstractDOMParser)::(parse|parseFirst|parseNext|loadGrammar)$'),
     ['xercesc_3_2::SAXParseException', 'xercesc_3_2::SAXException', 'xercesc_3_2::XMLException']),
]


def escape_analysis(facts):
    cg = facts.cg
    F = facts.F

    def caught(t, hstack):
        types = {t} | facts.ancestors(t)
        for hs in hstack:
            for h in hs:
                re_ = h.startswith('~'); hh = h.lstrip('~')
                if hh == '...' or hh in types:
                    if re_:
                        break
                    return True
        return False
    Esc = collections.defaultdict(set); why = {}
    byCallee = collections.defaultdict(list)
    cut = set()
    for fr, to, c in cg.edges:
        a, b = short(facts.name.get(fr, '')), short(facts.name.get(to, ''))
        if (a, b) in ASSUME_EDGE:
            cut.add((a, b)); continue
        byCallee[to].append((fr, to, c))
    work = []
    used_assumptions = collections.Counter()
    for t in facts.T:
        ty = t['type']
        if ty == '<rethrow>':
            continue
        fn = short(facts.name.get(t['from'], '')).split('::')[-1]
        if (ty, fn) in ASSUME_THROW:
            used_assumptions[(ty, fn)] += 1
            continue
        if not caught(ty, t.get('h', [])):
            if ty not in Esc[t['from']]:
                Esc[t['from']].add(ty); why[(t['from'], ty)] = ('throw', t['loc']); work.append((t['from'], ty))
    # external throwers
    n_ext = 0
    for c in facts.calls:
        for rx, types in EXTERNAL_THROWS:
            if rx.match(c.get('toName', '')):
                n_ext += 1
                for ty in types:
                    if not caught(ty, c.get('h', [])) and ty not in Esc[c['from']]:
                        Esc[c['from']].add(ty); why[(c['from'], ty)] = ('throw', c['loc'] + ' (external ' + c['toName'] + ')'); work.append((c['from'], ty))
    while work:
        fn, t = work.pop()
        for fr, to, c in byCallee.get(fn, ()):
            if t in Esc[fr]:
                continue
            if not caught(t, c.get('h', [])):
                Esc[fr].add(t); why[(fr, t)] = ('call', fn, c['loc']); work.append((fr, t))

    def explain(fn, t):
        out = []
        for _ in range(30):
            w = why[(fn, t)]
            if w[0] == 'throw':
                out.append('%s throws at %s' % (short(facts.name[fn]), w[1].replace('/repo/', ''))); break
            out.append('%s (%s)' % (short(facts.name[fn]), w[2].replace('/repo/', '').split('/')[-1])); fn = w[1]
        return out
    return Esc, explain, used_assumptions, cut, n_ext


def api_entries(facts):
    out = []
    for k, v in facts.F.items():
        if not (v.get('def') and v.get('repo')):
            continue
        if v.get('externC') and ('/XalanCAPI.cpp' in v['loc'] or '/XPathCAPI.cpp' in v['loc']):
            out.append(k)
        elif v.get('cls') == 'xalanc_1_12::XalanTransformer' and v.get('kind') == 'method' and v.get('access') == 'public' and v.get('ret') == 'int':
            out.append(k)
    return out


def r1_escape(res, facts):
    r = res.rule('C03-R1', 'no exception other than memory exhaustion can leave an API entry point (int-returning XalanTransformer members, extern "C" API): '
                 'interprocedural fixpoint over throw sites, per-call-site handler stacks and the CHA call graph', floor=35)
    Esc, explain, used, cut, n_ext = escape_analysis(facts)
    entries = api_entries(facts)
    for k in sorted(entries, key=lambda k: facts.sig(k)):
        bad = sorted(Esc.get(k, set()) - ALLOWED_ESCAPE)
        site = short(facts.sig(k))
        if not bad:
            r.ok(site, 'escape set: %s' % (sorted(short(x) for x in Esc.get(k, set())) or 'empty'))
        for t in bad:
            r.violation('%s escapes %s' % (short(t), site), 'exception %s can propagate out of the entry point' % short(t), facts.loc(k), chain=explain(k, t))
    r.note('throw sites: %d; external throwing calls modelled: %d; assumptions used: %s; edges cut: %s' %
           (len(facts.T), n_ext, ['%s@%s x%d' % (short(a), b, n) for (a, b), n in used.items()], sorted(cut)))
    for (a, b), why in ASSUME_THROW.items():
        res.assume('C03-R1 throw site %s in %s not followed: %s' % (short(a), b, why))
    for (a, b), why in ASSUME_EDGE.items():
        res.assume('C03-R1 edge %s -> %s not followed: %s' % (a, b, why))
    if n_ext == 0:
        raise AnalysisBroken('no call to a Xerces parser entry point found: external exception model matches nothing')
    return r


# ----------------------------------------------------------------------------------------------- R2
STATUS = {'XSLException': -1, 'SAXParseException': -2, 'SAXException': -2, 'XMLException': -3, 'XalanDOMException': -4}
SIBLINGS = ['XalanTransformer::doTransform', 'XalanTransformer::compileStylesheet', 'XalanTransformer::parseSource']


def r2_protocol(res, facts):
    r = res.rule('C03-R2', 'the three API workhorses agree on the error protocol: same handler types in a non-shadowing order, status -1/-2/-2/-3/-4 per type, '
                 'every handler writes m_errorMessage on every path', floor=15)
    lists = {}
    for q in SIBLINGS:
        a = facts.asts(q)[0]
        tries = [x for x in walk(a['body']) if x['k'] == 'Try']
        if not tries:
            r.violation(q, 'no try block', common.file_line(a)); continue
        t = max(tries, key=lambda t: len(t['h']))
        # the status variable: the local the function returns (whatever it is called)
        status_ids = {strip_casts(x['e']).get('id') for x in walk(a['body']) if x['k'] == 'Return' and x.get('e') is not None and
                      (strip_casts(x['e']) or {}).get('k') == 'Ref' and (strip_casts(x['e']) or {}).get('d') == 'local'}
        types = [short(h['ty']).replace('xercesc_3_2::', '') for h in t['h']]
        lists[q] = types
        # shadowing
        for i, hi in enumerate(t['h']):
            for j in range(i):
                hj = t['h'][j]
                if hj['ty'] == '...' or hj['ty'] in ({hi['ty']} | facts.ancestors(hi['ty'])):
                    r.violation('%s handler %s' % (q, short(hi['ty'])), 'unreachable: shadowed by the earlier handler for %s' % short(hj['ty']), common.file_line(a, hi['body']))
        for h in t['h']:
            ty = short(h['ty']).replace('xercesc_3_2::', '')
            site = '%s catch(%s)' % (q.split('::')[-1], ty)
            # status
            consts = []
            for x in walk(h['body']):
                if x['k'] == 'Bin' and x['op'] == '=' and strip_casts(x['lhs']).get('k') == 'Ref' and strip_casts(x['lhs']).get('id') in status_ids:
                    rv = strip_casts(x['rhs'])
                    consts.append(rv.get('cv'))
                if x['k'] == 'Return' and x.get('e') is not None and 'cv' in (strip_casts(x['e']) or {}):
                    consts.append(strip_casts(x['e'])['cv'])
            want = STATUS.get(ty)
            if want is None:
                r.violation(site, 'handler for a type outside the documented protocol', common.file_line(a, h['body']))
                continue
            if not consts or any(c != want for c in consts):
                r.violation(site, 'status %s, protocol requires %d' % (consts, want), common.file_line(a, h['body']))
                continue
            # message on every path
            cfg = CFG({'body': h['body'], 'line': h['body'].get('l')})

            def writes_msg(n):
                if n.ast is None:
                    return False
                for c in calls(n.ast):
                    for arg in c.get('args', []):
                        sa = strip_casts(arg)
                        if sa is not None and sa.get('k') == 'Member' and sa.get('m') == 'm_errorMessage':
                            return True
                for x in walk(n.ast):
                    if x['k'] == 'Bin' and x['op'] == '=' and strip_casts(x['lhs']).get('m') == 'm_errorMessage':
                        return True
                return False
            seen = cfg.reachable_avoiding([cfg.entry], writes_msg)
            if cfg.exit.id in seen:
                r.violation(site, 'a path through the handler returns status %d without writing m_errorMessage (empty error message)' % want, common.file_line(a, h['body']))
            else:
                r.ok(site, 'status %d, message on every path' % want)
    base = lists.get(SIBLINGS[0])
    for q, l in lists.items():
        if l != base:
            r.violation('%s handler list' % q, 'handlers %s differ from doTransform %s' % (l, base), None)
        else:
            r.ok('%s handler list == doTransform' % q)
    return r


# ----------------------------------------------------------------------------------------------- R6
def r6_arena(res, facts):
    r = res.rule('C03-R6', 'arena allocators: the block returned by allocateBlock() is the placement-new address, commitAllocation(block) follows the constructor '
                 'and precedes the return on every normal path, no second allocateBlock in between', floor=40)
    for a in fn_candidates(facts, '"allocateBlock"'):
        if common.is_fixture(a):
            continue
        if a['name'].endswith('::allocateBlock') or 'ArenaAllocator' in short(a.get('cls', '') or '') and a['name'].split('::')[-1] in ('allocateBlock',):
            continue
        allocs = [c for c in calls(a['body']) if c.get('n') == 'allocateBlock']
        if not allocs:
            continue
        if short(a.get('cls') or '').startswith(('ArenaAllocator', 'ReusableArenaAllocator', 'ArenaBlock', 'ReusableArenaBlock')):
            continue   # the arena implementation itself
        site = short(a['fq'])
        loc = common.file_line(a)
        if len(allocs) != 1:
            r.violation(site, '%d allocateBlock() calls in one create function' % len(allocs), loc); continue
        # block variable
        blk = None
        for x in walk(a['body']):
            if x['k'] == 'Decl':
                for v in x['vars']:
                    if v.get('init') is not None and any(c is allocs[0] for c in calls(v['init'])):
                        blk = v
        news = [x for x in walk(a['body']) if x['k'] == 'New' and x.get('place')]
        commits = [c for c in calls(a['body']) if c.get('n') == 'commitAllocation']
        if blk is None or len(news) != 1:
            r.violation(site, 'allocateBlock() result is not bound to one local used by exactly one placement new (%d found)' % len(news), loc); continue
        pl = strip_casts(news[0]['place'][0])
        if not (pl.get('k') == 'Ref' and pl.get('id') == blk['id']):
            r.violation(site, 'placement new constructs at %s, not at the allocated block %s' % (pp(pl), blk['n']), common.file_line(a, news[0])); continue
        if len(commits) != 1 or strip_casts(commits[0]['args'][0]).get('id') != blk['id']:
            r.violation(site, 'commitAllocation(%s) missing or applied to another pointer' % blk['n'], loc); continue
        cfg = CFG(a)
        nnew = cfg_node_of(cfg, news[0]); ncom = cfg_node_of(cfg, commits[0])
        # every path from the construction to the exit passes the commit
        seen = cfg.reachable_avoiding([nnew], lambda n: n is ncom)
        # and the commit is not reachable before the construction: construction dominates commit
        before = cfg.reachable_avoiding([cfg.entry], lambda n: n is nnew)
        if cfg.exit.id in seen:
            r.violation(site, 'a normal path returns the constructed object without commitAllocation(): the arena hands the same block out again', common.file_line(a, news[0]))
        elif ncom.id in before:
            r.violation(site, 'commitAllocation() can run before the object is constructed', common.file_line(a, commits[0]))
        else:
            r.ok(site)
    return r


_run_r3457 = run


def run(res, facts, tier):
    r1_escape(res, facts)
    r2_protocol(res, facts)
    _run_r3457(res, facts, tier)
    r6_arena(res, facts)


# ----------------------------------------------------------------------------------------------- R8: integer division by a run-time divisor
# divisors that are non-zero by an invariant established elsewhere, one reason each (function, divisor with locals replaced by their initialisers and parameters by $position)
DIVISOR_INVARIANTS = {
    ('XalanDeque::operator[]', 'm_blockSize'): 'block size is fixed by the constructor (callers pass a non-zero literal; default 10) and never written afterwards',
    ('XalanDeque::XalanDeque', 'theRHS.m_blockSize'): 'copy of an existing deque: same invariant as m_blockSize',
    ('XalanMap::doHash', '$1'): 'callers pass m_buckets.size() after the map has created its buckets (doCreateEntry / find return early on an empty bucket vector)',
    ('XalanDOMStringHashTable::find', 'm_bucketCount'): 'bucket count is a constructor argument (eDefaultBucketCount = 101 or an explicit non-zero count)',
    ('XalanDOMStringHashTable::insert', 'm_bucketCount'): 'bucket count is a constructor argument (eDefaultBucketCount = 101 or an explicit non-zero count)',
    ('XalanQName::hash', '(getNamespace().hash() + 1)'): 'hash value plus one',
    ('ElemNumber::traditionalAlphaCount', '<$1.getMultipliers()>[<0>]'): 'entries of the numbering resource bundle (powers of ten), never zero',
    ('ElemNumber::traditionalAlphaCount', '<$1.getNumberGroups()>[<0>]'): 'entries of the numbering resource bundle (group sizes), never zero',
    ('ElemNumber::int2alphaCount', '<$2>'): 'length of the alphabet table passed by the caller (s_alphaCountTableSize / resource bundle), non-zero',
}


def r8_division(res, facts):
    from .c19 import strip_targs
    r = res.rule('C03-R8', 'every integer division or remainder by a run-time divisor is dominated by a test that the divisor is not zero, or the divisor is a reviewed '
                 'structural invariant; a divisor that input can make zero kills the process with SIGFPE', floor=10)
    fired = set(); fx = set(); seen = set()
    cands = {}
    for needle in ('"op":"/"', '"op":"%"', '"op":"/="', '"op":"%="'):
        for a in fn_candidates(facts, needle):
            cands[a['usr']] = a
    for a in cands.values():
        isfx = common.is_fixture(a)
        divs = [x for x in walk(a['body']) if x['k'] == 'Bin' and x['op'] in ('/', '%', '/=', '%=') and not str(x.get('ty', '')).startswith(('double', 'float', 'long double'))
                and strip_casts(x['rhs']) is not None and 'cv' not in strip_casts(x['rhs'])]
        if not divs:
            continue
        if isfx:
            fx.add(a['name'])
        fn = strip_targs(short(a['name']))
        cfg = None; must = None
        for x in divs:
            d = strip_casts(x['rhs'])
            if any(y['k'] == 'Cast' and y.get('ck') == 'FloatingToIntegral' for y in walk(x['rhs'])):
                continue   # converted doubles: C03-R4
            dtxt = pp(d)
            key = (fn, dtxt)
            if key in seen:
                continue
            seen.add(key)
            site = '%s: division by %s' % (fn, dtxt)
            if cfg is None:
                cfg = CFG(a); must = common.must_conds(cfg)
            node = cfg_node_of(cfg, x)
            conds = must.get(node.id, []) if node else []
            guarded = False
            for atom, br in conds:
                core, eff = common.norm_atom(atom, br)
                if core is None or core.get('k') != 'Bin':
                    continue
                l, rr = strip_casts(core['lhs']), strip_casts(core['rhs'])
                for v, c in ((l, rr), (rr, l)):
                    if v is not None and pp(v) == dtxt and c is not None and 'cv' in c:
                        op = core['op'] if v is l else {'<': '>', '>': '<', '<=': '>=', '>=': '<=', '==': '==', '!=': '!='}[core['op']]
                        cv = c['cv']
                        if (op == '==' and cv == 0 and not eff) or (op == '!=' and cv == 0 and eff) or (op == '>' and cv >= 0 and eff) or (op == '>=' and cv > 0 and eff) \
                                or (op == '<=' and cv == 0 and not eff and str(v.get('ty', '')).startswith('unsigned')) or (op == '<' and cv == 1 and not eff):
                            guarded = True
            if guarded:
                r.ok(site, 'dominated by a non-zero test')
            elif (fn, common.canon_text(x['rhs'], a)) in DIVISOR_INVARIANTS and not isfx:
                r.ok(site, 'invariant: ' + DIVISOR_INVARIANTS[(fn, common.canon_text(x['rhs'], a))])
            elif isfx:
                fired.add(a['name'])
            else:
                r.violation(site, 'integer %s by %s, which no dominating condition shows to be non-zero: a zero divisor raises SIGFPE instead of an error' % (x['op'], dtxt), common.file_line(a, x))
    fixture_summary(r, 'R8', fired, fx)
    return r


_run_c03_17 = run


def run(res, facts, tier):
    _run_c03_17(res, facts, tier)
    r8_division(res, facts)


# ----------------------------------------------------------------------------------------------- R9: dereference on a path where the pointer is known null
def _ptr_ref(e):
    e = strip_casts(e)
    if isinstance(e, dict) and e.get('k') == 'Ref' and e.get('d') in ('local', 'param') and re.search(r'\*\s*(const)?\s*$', e.get('ty') or '') and 'id' in e:
        return e
    return None


def _const_of(e):
    e = strip_casts(e)
    if isinstance(e, dict) and 'cv' in e and e.get('k') in ('Int', 'Bool', 'Ref', 'Char'):
        return e['cv']
    if isinstance(e, dict) and e.get('k') == 'Nullptr':
        return 0
    return None


def _cond_key(n):
    """canonical (key, truth of the key when the cond node is true)"""
    e, br = common.norm_atom(n.ast, True)
    if not isinstance(e, dict):
        return None
    if e.get('k') == 'Bin' and e['op'] in ('==', '!='):
        l, r = strip_casts(e['lhs']), strip_casts(e['rhs'])
        for a, b in ((l, r), (r, l)):
            if isinstance(a, dict) and a.get('k') == 'Ref' and a.get('d') in ('local', 'param') and 'id' in a:
                c = _const_of(b)
                if c is not None:
                    return ('eq', a['id'], c), ((e['op'] == '==') == br)
    if e.get('k') == 'Ref' and e.get('d') in ('local', 'param') and 'id' in e:
        return ('eq', e['id'], 0), (not br)
    return ('txt', pp(e)), br


def _effects(n):
    killed = set(); vals = {}
    if n.ast is None:
        return killed, vals
    for x in walk(n.ast):
        k = x.get('k')
        if k == 'Decl':
            for v in x.get('vars', []):
                killed.add(v['id'])
                if v.get('init') is not None:
                    c = _const_of(v['init'])
                    if c is not None:
                        vals[v['id']] = c
        elif k == 'Bin' and (x['op'] == '=' or (x['op'].endswith('=') and x['op'] not in ('==', '!=', '<=', '>='))):
            t = strip_casts(x['lhs'])
            if isinstance(t, dict) and t.get('k') == 'Ref' and 'id' in t:
                killed.add(t['id'])
                if x['op'] == '=':
                    c = _const_of(x['rhs'])
                    if c is not None:
                        vals[t['id']] = c
        elif k == 'Un' and x['op'] in ('++', '--'):
            t = strip_casts(x['e'])
            if isinstance(t, dict) and t.get('k') == 'Ref' and 'id' in t:
                killed.add(t['id'])
        elif k in ('Call', 'MCall', 'Ctor'):
            for a0 in x.get('args', []):
                t = strip_casts(a0)
                if isinstance(t, dict) and t.get('k') == 'Un' and t.get('op') == '&':
                    t = strip_casts(t['e'])
                if isinstance(t, dict) and t.get('k') == 'Ref' and t.get('d') in ('local', 'param') and 'id' in t and not (t.get('ty') or '').startswith('const') and '*' not in (t.get('ty') or ''):
                    killed.add(t['id'])
    return killed, vals


class _DerefSummary:
    """does a function dereference its i-th parameter without ever testing it against null (directly or by handing it on)"""

    def __init__(self, facts):
        self.facts = facts
        self.memo = {}

    def derefs(self, fn, i, depth=0):
        key = (fn, i)
        if key in self.memo:
            return self.memo[key]
        self.memo[key] = False
        r = False
        for a in (self.facts.asts(fn, must=False) or self.facts.asts(short(fn), must=False))[:2]:
            if i >= len(a['params']):
                continue
            pid = a['params'][i]['id']
            if not (a['params'][i].get('ty') or '').rstrip().endswith('*'):
                continue
            tested = False
            direct = False
            passes = []
            for x in walk(a['body']):
                k = x.get('k')
                if k == 'Bin' and x['op'] in ('==', '!='):
                    for s in (x['lhs'], x['rhs']):
                        v = _ptr_ref(s)
                        if v is not None and v['id'] == pid:
                            tested = True
                elif k in ('If', 'While', 'For', 'Cond'):
                    c = x.get('cond') if k != 'Cond' else x.get('c')
                    v = _ptr_ref(c) if c is not None else None
                    if v is not None and v['id'] == pid:
                        tested = True
                if k == 'Un' and x.get('op') == '*':
                    v = _ptr_ref(x['e'])
                    if v is not None and v['id'] == pid:
                        direct = True
                elif k == 'Member' and x.get('arrow'):
                    v = _ptr_ref(x.get('obj'))
                    if v is not None and v['id'] == pid:
                        direct = True
                elif k == 'MCall':
                    o = strip_casts(x.get('obj'))
                    v = _ptr_ref(o) if o is not None else None
                    if v is not None and v['id'] == pid:
                        direct = True
                if k in ('Call', 'MCall') and x.get('fn'):
                    for j, a0 in enumerate(x.get('args', [])):
                        v = _ptr_ref(a0)
                        if v is not None and v['id'] == pid:
                            passes.append((x['fn'], j))
            if tested:
                continue
            if direct or (depth < 3 and any(self.derefs(f2, j, depth + 1) for f2, j in passes)):
                r = True
        self.memo[key] = r
        return r


def _derefs_of(n, vid, summ):
    out = []
    if n.ast is None:
        return out
    for x in walk(n.ast):
        k = x.get('k')
        if k == 'MCall' and x.get('obj') is not None:
            o = strip_casts(x['obj'])
            if isinstance(o, dict) and o.get('k') == 'Un' and o.get('op') == '*':
                o = strip_casts(o['e'])
            v = _ptr_ref(o)
            if v is not None and v['id'] == vid:
                out.append(x)
        if k in ('MCall', 'Call') and x.get('fn'):
            for j, a0 in enumerate(x.get('args', [])):
                v = _ptr_ref(a0)
                if v is not None and v['id'] == vid and summ.derefs(x['fn'], j):
                    out.append(x)
        elif k == 'Member' and x.get('arrow'):
            v = _ptr_ref(x.get('obj'))
            if v is not None and v['id'] == vid:
                out.append(x)
        elif k == 'Un' and x.get('op') == '*':
            v = _ptr_ref(x['e'])
            if v is not None and v['id'] == vid:
                out.append(x)
    return out


def _null_deref_paths(a, summ):
    """[(variable name, deref ast)]: inside ONE condition (the chain of cond nodes short-circuit evaluation expands it to), a
    dereference evaluated on the branch on which an earlier operand found the pointer null.  Nothing can be assigned between the
    test and the use except by the condition itself, so every such path is feasible."""
    cfg = CFG(a)
    out = []
    names = {}
    for x in walk(a['body']):
        if x.get('k') == 'Ref' and 'id' in x:
            names[x['id']] = x.get('n')
    for t in cfg.nodes:
        if t.kind != 'cond' or t.ast is None:
            continue
        ck = _cond_key(t)
        if not ck or ck[0][0] != 'eq' or ck[0][2] != 0:
            continue
        vid = ck[0][1]
        e, _ = common.norm_atom(t.ast, True)
        probe = strip_casts(e if e.get('k') == 'Ref' else (e['lhs'] if _ptr_ref(e.get('lhs')) is not None else e.get('rhs'))) if isinstance(e, dict) else None
        if _ptr_ref(probe) is None:
            continue
        key, tw = ck
        null_succ = t.cond_true if tw else t.cond_false        # the branch on which (v == 0) holds
        if null_succ is None:
            continue
        seen = set()
        work = [(null_succ, frozenset({(key, True)}))]
        while work:
            n, fs = work.pop()
            if (n.id, fs) in seen or n.kind != 'cond' or n.ast is None:
                continue
            seen.add((n.id, fs))
            if vid in _effects(n)[0]:
                continue
            for x in _derefs_of(n, vid, summ):
                out.append((names.get(vid, '?'), x))
            fd = dict(fs)
            ck2 = _cond_key(n)
            if ck2 is None:
                for s in n.succ:
                    work.append((s, fs))
                continue
            k2, tw2 = ck2
            known = fd.get(k2)
            for succ, branch in ((n.cond_true, True), (n.cond_false, False)):
                if succ is None:
                    continue
                val = tw2 if branch else (not tw2)
                if known is not None and known != val:
                    continue
                nf = dict(fd); nf[k2] = val
                work.append((succ, frozenset(nf.items())))
    uniq = {}
    for nm, x in out:
        uniq[(nm, x.get('l'), pp(x)[:60])] = (nm, x)
    return list(uniq.values())


def _null_fallthrough(facts, a, summ):
    """[(name, deref ast, what)]: `if (p == 0) { report }` whose report does not end the path, followed in straight line by a dereference of p.
    Only statement nodes are followed (the walk stops at the next condition, loop, return or throw), so no correlated condition can make
    the path infeasible; a call that raises an error (throw, problem(.., eError, ..), error(..)) ends the walk."""
    cfg = CFG(a)
    out = []
    names = {}
    for x in walk(a['body']):
        if x.get('k') == 'Ref' and 'id' in x:
            names[x['id']] = x.get('n')
    n_tests = 0
    for t in cfg.nodes:
        if t.kind != 'cond' or t.ast is None:
            continue
        ck = _cond_key(t)
        if not ck or ck[0][0] != 'eq' or ck[0][2] != 0:
            continue
        vid = ck[0][1]
        e, _ = common.norm_atom(t.ast, True)
        probe = None
        if isinstance(e, dict) and e.get('k') == 'Bin':
            probe = _ptr_ref(e.get('lhs')) or _ptr_ref(e.get('rhs'))
        elif isinstance(e, dict):
            probe = _ptr_ref(e)
        if probe is None:
            continue
        n_tests += 1
        key, tw = ck
        nd = t.cond_true if tw else t.cond_false
        steps = 0
        seen = set()
        while nd is not None and steps < 60 and nd.id not in seen:
            seen.add(nd.id)
            steps += 1
            if nd.kind == 'join' and nd.ast is not None and nd.ast.get('k') in ('LoopHead', 'CaseLabel'):
                break
            if nd.kind not in ('stmt', 'join') or nd is cfg.exit or nd is cfg.throw:
                break
            if nd.ast is not None and nd.kind == 'stmt':
                if vid in _effects(nd)[0]:
                    break
                ds = _derefs_of(nd, vid, summ)
                if ds:
                    out.append((names.get(vid, '?'), ds[0]))
                    break
                if nd.ast.get('k') in ('Return', 'Throw'):
                    break
                if common.reports_error(facts, [nd.ast], depth=2):
                    break
                if any(noreturn_like(c) for c in calls(nd.ast)):
                    break
            if len(nd.succ) != 1:
                break
            nd = nd.succ[0]
    return out, n_tests


def noreturn_like(c):
    n = c.get('n') or callee(c).split('::')[-1]
    return n.startswith('throw') or n in ('abort', 'exit', 'terminate', 'generateError', 'unknownOpCodeError')


def r9_null_paths(res, facts):
    r = res.rule('C03-R9', 'a pointer found null is not dereferenced: (a) inside one condition, no operand dereferences a pointer (or hands it to a function that dereferences it untested) '
                 'on the branch on which an earlier operand found it null; (b) after "if (p == 0) { report }" the report ends the path (a throw, or problem()/error() with an error '
                 'classification) before a straight-line dereference of p — a report downgraded to a warning falls through into the dereference', floor=300)
    summ = _DerefSummary(facts)
    fired = set(); fx = set()
    n_fn = 0
    for k in facts.astidx:
        a = facts.ast(k)
        if a is None or not (facts.lib_path(a['file']) or common.is_fixture(a)):
            continue
        if not any(x.get('k') == 'Ref' and re.search(r'\*\s*(const)?\s*$', x.get('ty') or '') and x.get('d') in ('local', 'param') for x in walk(a['body'])):
            continue
        try:
            hits = _null_deref_paths(a, summ)
            falls, n_tests = _null_fallthrough(facts, a, summ)
        except RecursionError:
            continue
        fname = short(facts.name[k])
        if common.is_fixture(a):
            fx.add(fname)
            if hits or falls:
                fired.add(fname)
            continue
        n_fn += 1
        if not hits and not falls:
            r.ok(fname)
        for nm, x in hits:
            r.violation('%s: %s' % (strip_targs_local(fname), nm), '%s is used as a non-null pointer in %s on a path on which it has just been found to be null' % (nm, pp(x)[:90]), common.file_line(a, x))
        for nm, x in falls:
            r.violation('%s: %s after its null test' % (strip_targs_local(fname), nm), 'the branch taken when %s is null does not end the path (no throw, no error-classified report), and %s follows in '
                        'straight line: a null %s is dereferenced' % (nm, pp(x)[:80], nm), common.file_line(a, x))
    fixture_summary(r, 'R9', fired, fx)
    return r


def strip_targs_local(n):
    out = ''; d = 0
    for ch in n:
        if ch == '<':
            d += 1
        elif ch == '>':
            d -= 1
        elif d == 0:
            out += ch
    return out


_run_c03_18 = run


def run(res, facts, tier):
    _run_c03_18(res, facts, tier)
    r9_null_paths(res, facts)


# ----------------------------------------------------------------------------------------------- R10: indexed stores into fixed-size local arrays
# keyed by (function, ordinal of the local array among the function's fixed-size arrays)
ARRAY_STORE_REVIEWED = {
    ('DOMStringHelper::NumberToCharacters', 0): 'the index walks back from the length sprintf returned into the same buffer (bounded by C03-R3) towards 0',
    ('NumberToDOMString', 0): 'the index walks back from the length sprintf returned into the same buffer (bounded by C03-R3) towards 0',
    ('ElemNumber::traditionalAlphaCount', 0): 'at most two code units per multiplier and one per group of the numbering resource bundle; the only bundle (Greek, static data in ElemNumber.cpp) '
                                                   'has 4 multipliers and 3 groups, the buffer 100 units',
    ('ElemNumber::int2alphaCount', 0): 'one code unit per digit of a CountType in a radix >= 2 alphabet: at most 64 < 100, filled from the end',
}


def _upper_bound(e, conds, depth=0):
    """largest value the integer expression e can have given the dominating conditions, or None"""
    e = strip_casts(e)
    if not isinstance(e, dict):
        return None
    if 'cv' in e and e.get('k') in ('Int', 'Ref', 'Bool', 'Char') and isinstance(e['cv'], int):
        return e['cv']
    if e.get('k') == 'Bin' and e['op'] in ('+', '-'):
        l = _upper_bound(e['lhs'], conds, depth + 1)
        r = strip_casts(e['rhs'])
        if l is not None and isinstance(r, dict) and isinstance(r.get('cv'), int):
            return l + r['cv'] if e['op'] == '+' else l - r['cv']
        return None
    if e.get('k') != 'Ref' or 'id' not in e or depth > 3:
        return None
    best = None
    for atom, br in conds:
        c, eff = common.norm_atom(atom, br)
        if not isinstance(c, dict) or c.get('k') != 'Bin' or c['op'] not in ('<', '<=', '>', '>=', '=='):
            continue
        l, r = strip_casts(c['lhs']), strip_casts(c['rhs'])
        op = c['op']
        if isinstance(r, dict) and r.get('k') == 'Ref' and r.get('id') == e['id'] and not (isinstance(l, dict) and l.get('k') == 'Ref' and l.get('id') == e['id']):
            l, r = r, l
            op = {'<': '>', '<=': '>=', '>': '<', '>=': '<=', '==': '=='}[op]
        if not (isinstance(l, dict) and l.get('k') == 'Ref' and l.get('id') == e['id']):
            continue
        if not eff:
            if op == '==':
                continue
            op = {'<': '>=', '<=': '>', '>': '<=', '>=': '<'}[op]
        if op in ('<', '<=', '=='):
            ub = _upper_bound(r, conds, depth + 1)
            if ub is not None:
                v = ub - 1 if op == '<' else ub
                best = v if best is None else min(best, v)
    return best


def r10_array_stores(res, facts):
    r = res.rule('C03-R10', 'every indexed store into a fixed-size local array is within the array: the index is a constant, or the conditions that dominate the store bound it below the '
                 'array size (through the loop condition and the guard on the length it runs to), or the site is reviewed with its reason', floor=12)
    fired = set(); fx = set()
    for k in facts.astidx:
        a = facts.ast(k)
        if a is None or not (facts.lib_path(a['file']) or common.is_fixture(a)):
            continue
        arrays = {}
        for x in walk(a['body']):
            if x.get('k') == 'Decl':
                for v in x.get('vars', []):
                    m = re.search(r'\[(\d+)\]$', (v.get('ty') or '').strip())
                    if m:
                        arrays[v['id']] = (v['n'], int(m.group(1)), len(arrays))
        if not arrays:
            continue
        fname = strip_targs_local(short(facts.name[k]))
        isfx = common.is_fixture(a)
        if isfx:
            fx.add(fname)
        cfg = None
        must = None
        for x in walk(a['body']):
            if not (x.get('k') == 'Bin' and x['op'].endswith('=') and x['op'] not in ('==', '!=', '<=', '>=')):
                continue
            t = strip_casts(x['lhs'])
            if not (isinstance(t, dict) and t.get('k') == 'Index'):
                continue
            b = strip_casts(t['b'])
            if not (isinstance(b, dict) and b.get('k') == 'Ref' and b.get('id') in arrays):
                continue
            nm, size, ordinal = arrays[b['id']]
            idx = strip_casts(t['i'])
            post = None
            if isinstance(idx, dict) and idx.get('k') == 'Un' and idx.get('op') in ('++', '--') and idx.get('post'):
                post = idx['op']
                idx = strip_casts(idx['e'])
            site = '%s: %s[%s]' % (fname, nm, pp(t['i'])[:30])
            if cfg is None:
                cfg = CFG(a)
                must = common.must_conds(cfg)
            node = cfg_node_of(cfg, x)
            conds = must.get(node.id, []) if node is not None else []
            ub = _upper_bound(idx, conds)
            if ub is not None and ub < size:
                if not isfx:
                    r.ok(site, 'index <= %d < %d' % (ub, size))
            elif (fname, ordinal) in ARRAY_STORE_REVIEWED and not isfx:
                r.ok(site, ARRAY_STORE_REVIEWED[(fname, ordinal)])
            else:
                if isfx:
                    fired.add(fname)
                else:
                    r.violation(site, 'store into %s[%d] at an index the dominating conditions do not bound below %d (%s): input that makes it larger overwrites the stack'
                                % (nm, size, size, 'upper bound %s' % ub if ub is not None else 'no bound found on %s' % pp(idx)[:30]), common.file_line(a, x))
    fixture_summary(r, 'R10', fired, fx)
    return r


_run_c03_19 = run


def run(res, facts, tier):
    _run_c03_19(res, facts, tier)
    r10_array_stores(res, facts)


# ----------------------------------------------------------------------------------------------- R11: handles into the per-transformation factory
HANDLE_OWNERS = ('StylesheetExecutionContextDefault', 'XPathExecutionContextDefault', 'VariablesStack', 'XSLTEngineImpl')
HANDLE_REVIEWED = {
    'XSLTEngineImpl::m_stylesheetParams': 'top-level parameters set by the caller (setStylesheetParam with an XObjectPtr of the caller\'s own factory); they are meant to persist until '
                                          'clearStylesheetParams() and do not point into the per-transformation factory',
}


def r11_dangling_handles(res, facts):
    """XObjectPtr values point into the object factory of the transformation; XalanTransformer resets that factory after every transformation, also after a failed one.
    A long-lived object (execution contexts, the variables stack, the engine) that still holds such values afterwards destroys or copies them later: use of freed memory.
    So every member of those classes whose type contains XObjectPtr must be emptied by the class's own reset()."""
    r = res.rule('C03-R11', 'handles into the per-transformation object factory: every member of the long-lived execution objects (execution contexts, variables stack, engine) whose '
                 'type contains XObjectPtr, directly or through element / field types, is emptied by the reset() of its class (after an aborted transformation the push / pop '
                 'pairs are not balanced, and the factory behind the handles is reset)', floor=4)

    import re as _re

    def holds(ty, depth=0):
        if ty.rstrip().endswith('*') and '<' not in ty:
            return False            # a pointer to an object is not a holder of its fields' values here
        ty = _re.sub(r'(const\s+)?[A-Za-z_][A-Za-z_0-9:]*\s*\*', ' ', ty)      # pointers to objects do not hold the objects' values
        names = set(_re.findall(r'[A-Za-z_][A-Za-z_0-9]*(?:::[A-Za-z_][A-Za-z_0-9]*)*', ty))
        if any(x.endswith('XObjectPtr') for x in names):
            return True
        if depth > 3:
            return False
        for nm in names:
            k2 = facts.K.get(nm) or facts.K.get(NS_ + nm)
            if k2 is None or nm.endswith(('XalanVector', 'XalanDeque', 'XalanMap', 'XalanList', 'XalanDOMString')):
                continue
            for fld in k2.get('fields', []):
                if holds(fld.get('ty', ''), depth + 1):
                    return True
        return False
    written = {w['field'] for w in facts.W if w.get('field')} if hasattr(facts, 'W') else set()
    NS_ = 'xalanc_1_12::'
    n = 0
    for owner in HANDLE_OWNERS:
        k = facts.K.get(NS_ + owner)
        if k is None:
            continue
        resets = [a for a in facts.asts(owner + '::reset', must=False) if a.get('body') is not None and len(a['params']) == 0]
        if not resets:
            continue
        body = resets[0]
        cleared = set()
        # members emptied directly, or by member functions of the same class called from reset()
        todo = [body]
        seen = set()
        while todo:
            b = todo.pop()
            if id(b) in seen:
                continue
            seen.add(id(b))
            for c in calls(b['body']):
                o = strip_casts(c.get('obj')) if c.get('obj') is not None else None
                nm = c.get('n') or ''
                if c.get('k') == 'MCall' and o is not None and o.get('k') == 'Member' and nm in ('clear', 'reset', 'resize', 'erase', 'swap'):
                    cleared.add(o.get('m'))
                if c.get('k') == 'MCall' and (o is None or o.get('k') == 'This') and c.get('usr'):
                    b2 = facts.ast(c['usr'])
                    if b2 is not None and b2.get('body') is not None and (c.get('cls') or '').endswith(owner):
                        todo.append(b2)
            for x in walk(b['body']):
                if x.get('k') == 'Bin' and x['op'] == '=':
                    t = strip_casts(x['lhs'])
                    if t.get('k') == 'Member':
                        cleared.add(t.get('m'))
                if x.get('k') == 'OpCall' and x.get('op') == '=' and x.get('args'):
                    t = strip_casts(x['args'][0])
                    if t.get('k') == 'Member':
                        cleared.add(t.get('m'))
        for fld in k.get('fields', []):
            ty = fld.get('ty', '')
            if not holds(ty):
                continue
            n += 1
            site = '%s::%s' % (owner, fld['n'])
            if site in HANDLE_REVIEWED:
                r.ok(site, 'reviewed: ' + HANDLE_REVIEWED[site])
            elif fld['n'] in cleared:
                r.ok(site, 'emptied by %s::reset()' % owner)
            elif written and not any(x.endswith('::%s::%s' % (owner, fld['n'])) or x.endswith(owner + '::' + fld['n']) for x in written):
                r.ok(site, 'no function of the built configuration writes the member')
            else:
                r.violation(site, 'the member (%s) holds handles into the object factory of the transformation and is not emptied by %s::reset(): after a transformation that '
                            'ended in an error while values were pushed, the handles outlive the factory reset and are copied or destroyed later (use of freed memory)'
                            % (ty.replace(NS_, ''), owner), common.file_line(body))
    if n < 4:
        raise AnalysisBroken('only %d members holding XObjectPtr found in %s' % (n, ', '.join(HANDLE_OWNERS)))
    return r


_run_c03_prev11 = run


def run(res, facts, tier):
    _run_c03_prev11(res, facts, tier)
    r11_dangling_handles(res, facts)


# ----------------------------------------------------------------------------------------------- R12: no null slot in a map of owning pointers across a call that can fail
TRIVIAL_CALLS = {'get', 'releasePtr', 'release', 'getQName', 'getMemoryManager'}


def r12_null_slots(res, facts):
    """operator[] of a map whose mapped type is a raw pointer creates the slot - holding null - before anything is stored in it.  The owners of such maps destroy or
    dereference every value they hold without a test (clean-up loops, returnXResultTreeFrag, the function tables), so a null that stays behind is a crash later: when
    the transformation fails.  Between the creation of the slot and the store of the real pointer no call may be able to throw anything but memory exhaustion."""
    import re as _re
    r = res.rule('C03-R12', 'maps of raw owning pointers: between operator[] creating a slot (null) and the store of the pointer no call can throw an exception other than memory '
                 'exhaustion (the exception-escape sets of C03-R1) - a failing call would leave a null entry that clean-up code dereferences', floor=3)
    if not hasattr(facts, '_esc'):
        facts._esc = escape_analysis(facts)[0]
    Esc = facts._esc
    edges = collections.defaultdict(lambda: collections.defaultdict(set))
    for c in facts.calls:
        edges[c['from']][c['toName'].split('::')[-1]].add(c['to'])

    def may_fail(fn_usr, call):
        n = call.get('n') or callee(call).split('::')[-1]
        if n in TRIVIAL_CALLS:
            return None
        tos = set(edges[fn_usr].get(n, ()))
        if call.get('usr'):
            tos.add(call['usr'])
        bad = set()
        for t in tos:
            bad |= (Esc.get(t, set()) - ALLOWED_ESCAPE)
        return sorted(short(x) for x in bad) or None
    for usr in facts.astidx:
        a = facts.ast(usr)
        if a is None or a.get('body') is None or not facts.lib_path(a['file']) or '/Include/' in a['file']:
            continue
        slots = []
        for x in walk(a['body']):
            if x.get('k') == 'OpCall' and x.get('op') == '[]' and len(x.get('args', [])) == 2:
                t = (strip_casts(x['args'][0]) or {}).get('ty') or ''
                t = t.replace('const ', '').strip()
                m = _re.match(r'^(xalanc_1_12::)?XalanMap<(.*)>\s*&?$', t)
                if m and _re.search(r'\*\s*$', m.group(2).rsplit(',', 1)[-1].strip()) and m.group(2).count('<') == m.group(2).count('>'):
                    slots.append(x)
        if not slots:
            continue
        fn = short(a.get('fq') or a.get('name') or '?')
        # statements of the function in order, flattened
        stmts = []

        def flat(s):
            if isinstance(s, dict) and s.get('k') == 'Compound':
                for c in s['c']:
                    flat(c)
            elif isinstance(s, dict) and s.get('k') in ('If',):
                stmts.append(s.get('cond'))
                flat(s.get('then'))
                if s.get('else'):
                    flat(s['else'])
            elif isinstance(s, dict):
                stmts.append(s)
        flat(a['body'])
        for slot in slots:
            site = '%s: %s' % (fn, pp(slot)[:50])
            idx = next((i for i, s in enumerate(stmts) if s is not None and any(y is slot for y in walk(s))), None)
            if idx is None:
                res.broken.append('C03-R12: cannot place %s in the statements of %s' % (pp(slot)[:40], fn)); r.instances += 1; continue
            st = stmts[idx]
            # (a) m[k] = rhs in one statement: the slot may be created before rhs is evaluated (unspecified before C++17; the build is gnu++14)
            asg = next((y for y in walk(st) if y.get('k') in ('Bin', 'OpCall') and y.get('op') == '=' and
                        strip_casts(y['lhs'] if y['k'] == 'Bin' else y['args'][0]) is slot), None)
            if asg is not None:
                rhs = asg['rhs'] if asg['k'] == 'Bin' else asg['args'][1]
                bad = [(c, may_fail(usr, c)) for c in calls(rhs)]
                bad = [(c, b) for c, b in bad if b]
                if bad:
                    r.violation(site, 'the value stored is computed by %s, which can throw %s, in the same expression that creates the slot: on failure a null entry stays in the map'
                                % (pp(bad[0][0])[:60], bad[0][1][:3]), common.file_line(a, slot))
                else:
                    r.ok(site, 'slot created and filled in one expression whose right-hand side cannot fail')
                continue
            # (b) bound to a reference (or used otherwise): every call up to the first store through that reference
            ref_id = None
            if st.get('k') == 'Decl':
                for v in st.get('vars', []):
                    if v.get('init') is not None and any(y is slot for y in walk(v['init'])) and (v.get('ty') or '').rstrip().endswith('&'):
                        ref_id = v['id']
            if ref_id is None:
                r.violation(site, 'operator[] is used to read: a key that is not in the map gets a null entry, which clean-up code dereferences', common.file_line(a, slot))
                continue
            failing = None
            stored = False
            for s2 in stmts[idx + 1:]:
                if s2 is None:
                    continue
                store = next((y for y in walk(s2) if y.get('k') == 'Bin' and y.get('op') == '=' and (strip_casts(y['lhs']) or {}).get('k') == 'Ref' and strip_casts(y['lhs']).get('id') == ref_id), None)
                for c in calls(s2):
                    b = may_fail(usr, c)
                    if b and failing is None:
                        failing = (c, b)
                if store is not None:
                    stored = True
                    break
            if failing is not None:
                r.violation(site, 'the slot is created (null) and filled only after %s, which can throw %s: on failure a null entry stays in the map and is dereferenced by the '
                            'owner\'s clean-up' % (pp(failing[0])[:60], failing[1][:3]), common.file_line(a, failing[0]))
            elif stored:
                r.ok(site, 'nothing that can fail between the creation of the slot and the store')
            else:
                r.violation(site, 'the slot created by operator[] is never filled', common.file_line(a, slot))
    return r


_run_c03_prev12 = run


def run(res, facts, tier):
    _run_c03_prev12(res, facts, tier)
    r12_null_slots(res, facts)


_run_c03_prev13 = run


def run(res, facts, tier):
    _run_c03_prev13(res, facts, tier)
    from . import c01_vars
    c01_vars.run_cycle_rule(res, facts, tier)
    from . import c01_scope
    c01_scope.r14_balance(res, facts)
    from . import c03_iter
    c03_iter.run_rule(res, facts, tier)
    from . import c01_number
    c01_number.run_c03_rule(res, facts, tier)
