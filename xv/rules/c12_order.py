"""C12-R7 — the structural document-order comparison by interpretation.

DOMServices::isNodeAfter (the branch for documents without node indexes), isNodeAfterSibling and getParentOfNode are interpreted on every ordered pair of distinct
non-document nodes of a family of small trees (elements with attributes, text and nested elements, up to depth 3).  Nodes are abstract objects offering the DOM
navigation the code uses (getParentNode - null for an attribute, as in the DOM -, getOwnerElement, getFirstChild, getNextSibling, getAttributes / item / getLength,
getNodeType).  isNodeAfter(a, b) must be "a comes after b in document order" (XPath 1.0 5: an element before its attributes, those before its children), i.e. the
same answer the index comparison of an indexed document gives - the property's "identical whether derived from stored node indexes or from tree structure"."""
import itertools
from ..build import AnalysisBroken
from ..mast import Machine, Unsupported, callee, strip_casts, pp
from ..facts import NS
from . import common


class TNode:
    def __init__(self, kind, name):
        self.kind, self.name = kind, name
        self.parent = None
        self.children = []
        self.attrs = []
        self.order = None

    def __repr__(self):
        return self.name


class AttrMap:
    def __init__(self, owner):
        self.owner = owner


class OMach(Machine):
    def __init__(self, world, env):
        super().__init__(env, call_hook=world.hook)
        self.world = world
        self.fuel = 2000

    def ev(self, e):
        k = e['k']
        if k == 'Un' and e['op'] in ('*', '&'):
            return self.ev(e['e'])
        if k == 'Bin' and e['op'] in ('==', '!='):
            l, r = self.ev(e['lhs']), self.ev(e['rhs'])
            if isinstance(l, TNode) or isinstance(r, TNode):
                same = l is r
            else:
                same = l == r
            return int(bool(same) == (e['op'] == '=='))
        if k == 'Cast' and e.get('ck') == 'PointerToBoolean':
            v = self.ev(e['e'])
            return int(isinstance(v, (TNode, AttrMap)) or bool(v))
        return super().ev(e)


class OWorld:
    def __init__(self, facts):
        self.facts = facts
        self.T = {k: facts.enumconst.get(NS + 'XalanNode::' + k) for k in ('ELEMENT_NODE', 'ATTRIBUTE_NODE', 'TEXT_NODE', 'DOCUMENT_NODE')}
        if None in self.T.values():
            raise AnalysisBroken('XalanNode node type constants not found')
        self.depth = 0
        self.interpreted = set()

    def hook(self, m, c):
        k = c['k']
        n = c.get('n') or callee(c).split('::')[-1]
        if n == '__assert_fail':
            raise Unsupported('assertion fails: ' + (pp(c['args'][0])[:90] if c.get('args') else ''))
        if k == 'MCall':
            ov = m.ev(c['obj']) if c.get('obj') is not None else None
            if isinstance(ov, TNode):
                if n == 'isIndexed':
                    return 0
                if n == 'getNodeType':
                    return self.T[{'elem': 'ELEMENT_NODE', 'attr': 'ATTRIBUTE_NODE', 'text': 'TEXT_NODE', 'doc': 'DOCUMENT_NODE'}[ov.kind]]
                if n == 'getParentNode':
                    return 0 if ov.kind == 'attr' or ov.parent is None else ov.parent
                if n == 'getOwnerElement':
                    return ov.parent if ov.kind == 'attr' else 0
                if n == 'getFirstChild':
                    return ov.children[0] if ov.children else 0
                if n == 'getNextSibling':
                    if ov.kind == 'attr' or ov.parent is None:
                        return 0
                    sib = ov.parent.children
                    i = sib.index(ov)
                    return sib[i + 1] if i + 1 < len(sib) else 0
                if n == 'getAttributes':
                    return AttrMap(ov) if ov.kind == 'elem' else 0
                if n == 'getOwnerDocument':
                    return 0 if ov.kind == 'doc' else 'DOC'
                raise Unsupported('node method ' + n)
            if isinstance(ov, AttrMap):
                if n == 'getLength':
                    return len(ov.owner.attrs)
                if n == 'item':
                    i = int(m.ev(c['args'][0]))
                    return ov.owner.attrs[i] if 0 <= i < len(ov.owner.attrs) else 0
        if c.get('usr') and k in ('Call', 'MCall'):
            a = self.facts.ast(c['usr'])
            if a is not None and a.get('body') is not None and 'DOMServices' in (c.get('fn') or ''):
                self.depth += 1
                if self.depth > 8:
                    raise Unsupported('depth')
                try:
                    sub = OMach(self, {p['id']: m.ev(x) for p, x in zip(a['params'], c['args'])})
                    sub.fuel = m.fuel
                    self.interpreted.add(n)
                    return sub.call(a['body'])
                finally:
                    self.depth -= 1
        return NotImplemented


def build(shape):
    """shape: nested tuples ('e', nattrs, [children]) | 't'"""
    doc = TNode('doc', '/')
    order = []
    counter = [0]

    def mk(sh, parent, path):
        if sh == 't':
            nd = TNode('text', path + 'text()')
            nd.parent = parent
            order.append(nd)
            return nd
        _, na, kids = sh
        nd = TNode('elem', path + 'e%d' % counter[0]); counter[0] += 1
        nd.parent = parent
        order.append(nd)
        for i in range(na):
            at = TNode('attr', nd.name + '/@a%d' % i)
            at.parent = nd
            nd.attrs.append(at)
            order.append(at)
        for ch in kids:
            nd.children.append(mk(ch, nd, nd.name + '/'))
        return nd
    doc.children.append(mk(shape, doc, '/'))
    for i, nd in enumerate(order):
        nd.order = i
    return doc, order


def shapes():
    leaf = [('e', 0, []), ('e', 1, []), ('e', 2, []), 't']
    mid = []
    for na in (0, 1):
        for kids in itertools.product(leaf, repeat=1):
            mid.append(('e', na, list(kids)))
        for kids in itertools.product(leaf[:3] + ['t'], repeat=2):
            mid.append(('e', na, list(kids)))
    out = []
    for na in (0, 2):
        for kids in itertools.product(mid[:10] + leaf, repeat=2):
            out.append(('e', na, list(kids)))
    out += [('e', 1, [m]) for m in mid]
    out.append(('e', 1, [('e', 1, [('e', 1, [('e', 1, []), 't'])]), ('e', 0, [])]))
    return out


def run_rule(res, facts, tier):
    r = res.rule('C12-R7', 'DOMServices::isNodeAfter without node indexes (with isNodeAfterSibling, getParentOfNode) interpreted on every ordered pair of distinct nodes of small trees '
                 '(elements, attributes, text; depth up to 4): true exactly when the first node comes after the second in document order - the answer the index comparison gives',
                 floor=3000)
    cands = [a for a in facts.asts('DOMServices::isNodeAfter', must=False) if a.get('body') is not None and len(a['params']) == 2]
    if len(cands) != 1:
        raise AnalysisBroken('DOMServices::isNodeAfter(node, node): %d bodies' % len(cands))
    a = cands[0]
    w = OWorld(facts)
    found = {}
    n_pairs = 0
    sh = shapes()
    if tier != 'thorough':
        sh = sh[::3] + sh[-1:]
    for shape in sh:
        doc, order = build(shape)
        for n1, n2 in itertools.permutations(order, 2):
            n_pairs += 1
            m = OMach(w, {a['params'][0]['id']: n1, a['params'][1]['id']: n2})
            try:
                got = bool(m.call(a['body']))
            except Unsupported as u:
                msg = str(u)
                if 'assertion fails' in msg:
                    got = 'FAULT ' + msg
                else:
                    raise AnalysisBroken('isNodeAfter outside the interpreted subset on (%r, %r): %s' % (n1, n2, u))
            want = n1.order > n2.order
            if got is want:
                r.instances += 1
                continue
            def rel(x, y):
                p = y.parent
                while p is not None:
                    if p is x:
                        return 'an ancestor of'
                    p = p.parent
                return None
            kind = ('the first node is %s the second' % rel(n1, n2)) if rel(n1, n2) else (('the second node is %s the first' % rel(n2, n1)) if rel(n2, n1) else
                    '%s against %s in different subtrees' % (n1.kind, n2.kind) if n1.parent is not n2.parent else 'siblings (%s, %s)' % (n1.kind, n2.kind))
            if kind not in found:
                found[kind] = (n1, n2, got, want)
            r.instances += 1
    for kind, (n1, n2, got, want) in sorted(found.items()):
        r.instances -= 1
        r.violation('structural comparison: ' + kind, 'isNodeAfter(%r, %r) yields %s; in document order the first node comes %s the second' % (n1, n2, got, 'after' if want else 'before'),
                    common.file_line(a))
    r.note('%d ordered pairs over %d trees; interpreted: %s' % (n_pairs, len(sh), sorted(w.interpreted)))
    return r
