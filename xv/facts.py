"""Merged facts: functions, class hierarchy, CHA call graph, lazy mini-AST access."""
import collections, json, os, pickle, re
from .build import AnalysisBroken, extract, REPO

NS = 'xalanc_1_12::'


def short(n):
    return n.replace(NS, '')


class Facts:
    def __init__(self, scope='lib', overlay=None):
        self.dir, self.units = extract(scope, overlay)
        with open(os.path.join(self.dir, 'facts.pkl'), 'rb') as f:
            D = pickle.load(f)
        self.D = D
        self.F = D['F']; self.K = D['K']; self.calls = D['calls']; self.W = D['W']; self.G = D['G']; self.T = D['T']
        self.S = D['S']; self.TB = D['TB']; self.GV = D['GV']
        self.EN = D.get('EN', [])
        self.enumconst = {c['n']: c['v'] for e in self.EN for c in e['consts']}
        self.astidx = D['astidx']; self.astbyname = D['astbyname']
        if D['parse_errors']:
            raise AnalysisBroken('clang reported %d parse errors: facts incomplete' % D['parse_errors'])
        self.name = {k: v['name'] for k, v in self.F.items()}
        self.byname = collections.defaultdict(list)
        for k, v in self.F.items():
            self.byname[v['name']].append(k)
        self._cg = None
        self._astcache = {}
        self._fh = {}
        self._anc = {}
        self.scope = scope

    # ------------------------------------------------------------ names
    def fn(self, qname, must=True, defined=True):
        """USRs of function instances with this qualified name (namespace prefix optional)."""
        cands = self.byname.get(qname) or self.byname.get(NS + qname) or []
        if defined:
            cands = [k for k in cands if self.F[k].get('def')]
        if must and not cands:
            raise AnalysisBroken('anchor function not found: ' + qname)
        return cands

    def fn_re(self, pattern, defined=True):
        r = re.compile(pattern)
        return [k for k, v in self.F.items() if r.search(v['name']) and (v.get('def') or not defined)]

    @staticmethod
    def lib_path(path):
        """is this file part of the shipped library (not a sample / test / the command-line executable, which the thorough tier also parses)"""
        return '/src/xalanc/' in path and '/XalanExe/' not in path and '/Tests/' not in path and '/samples/' not in path

    def is_lib(self, usr):
        f = self.F.get(usr)
        return bool(f) and self.lib_path(f['loc'])

    def loc(self, k):
        return self.F[k]['loc'].replace(REPO + '/', '') if k in self.F else '?'

    def sig(self, k):
        f = self.F[k]
        return '%s(%s)%s' % (short(f.get('fq', f['name'])), ', '.join(short(p) for p in f.get('params', [])), ' const' if f.get('const') else '')

    # ------------------------------------------------------------ classes
    def ancestors(self, c):
        if c in self._anc:
            return self._anc[c]
        seen = set(); st = [c]
        while st:
            x = st.pop()
            for b in self.K.get(x, {}).get('bases', []):
                if b not in seen:
                    seen.add(b); st.append(b)
        self._anc[c] = seen
        return seen

    def derived(self, c):
        return {k for k in self.K if c in self.ancestors(k)}

    # ------------------------------------------------------------ call graph
    @property
    def cg(self):
        if self._cg is None:
            self._cg = CallGraph(self)
        return self._cg

    # ------------------------------------------------------------ ASTs
    def ast(self, usr):
        if usr in self._astcache:
            return self._astcache[usr]
        ent = self.astidx.get(usr)
        if not ent:
            return None
        fn, off, ln = ent
        fh = self._fh.get(fn)
        if fh is None:
            fh = self._fh[fn] = open(os.path.join(self.dir, fn), 'rb')
        if os.environ.get('XV_TRACE_FILES'):
            with open(os.environ['XV_TRACE_FILES'], 'a') as tf:
                tf.write(fn + '\n')
        a = json.loads(os.pread(fh.fileno(), ln, off))     # positioned read: forked children share the descriptor, not an offset they could race on
        self._astcache[usr] = a
        return a

    def asts(self, qname, must=True):
        """all function instances (with bodies) of that qualified name"""
        us = self.astbyname.get(qname) or self.astbyname.get(NS + qname) or []
        if must and not us:
            raise AnalysisBroken('anchor function has no body in the parsed program: ' + qname)
        return [self.ast(u) for u in us]

    def asts_t(self, qname, must=True):
        """like asts(), but matches the qualified name with template arguments stripped (members of class templates)"""
        if getattr(self, '_tidx', None) is None:
            idx = collections.defaultdict(list)
            for n, us in self.astbyname.items():
                if '<' in n:
                    out = ''; d = 0
                    for ch in n:
                        if ch == '<':
                            d += 1
                        elif ch == '>':
                            d -= 1
                        elif d == 0:
                            out += ch
                    idx[out].extend(us)
                else:
                    idx[n].extend(us)
            self._tidx = idx
        us = self._tidx.get(qname) or self._tidx.get(NS + qname) or []
        if must and not us:
            raise AnalysisBroken('anchor function has no body in the parsed program: ' + qname)
        return [self.ast(u) for u in us]

    def all_asts(self, file_re=None):
        r = re.compile(file_re) if file_re else None
        for usr in self.astidx:
            f = self.F.get(usr)
            if r is not None and f is not None and not r.search(f['loc']):
                continue
            a = self.ast(usr)
            if r is not None and not r.search(a['file']):
                continue
            yield a

    def table(self, qname, must=True):
        t = self.TB.get(qname) or self.TB.get(NS + qname)
        if t is None and must:
            raise AnalysisBroken('anchor table not found: ' + qname)
        return t

    def resolve(self, v, depth=0):
        """resolve {'ref':..} entries through other dumped tables"""
        if isinstance(v, dict) and 'ref' in v:
            if 'val' in v and v['val'] is not None:
                return self.resolve(v['val'], depth + 1)
            t = self.TB.get(v['ref'])
            if t is not None and depth < 6:
                return self.resolve(t['val'], depth + 1)
            return v
        if isinstance(v, list):
            return [self.resolve(x, depth) for x in v]
        return v


class CallGraph:
    """Direct, constructor, destructor (explicit and implicit) and operator calls; virtual calls by CHA;
    member-function-pointer calls resolve to every method of the class with the same signature."""

    def __init__(self, facts):
        F = facts.F
        self.facts = facts
        overr = collections.defaultdict(set)
        for k, v in F.items():
            for o in v.get('ov', []):
                overr[o].add(k)
        self.overr = overr
        self._allover = {}
        adj = collections.defaultdict(set)
        self.edges = []  # (from, to, callfact)
        for c in facts.calls:
            tg = {c['to']}
            if c['virt']:
                tg |= self.all_over(c['to'])
            for t in tg:
                adj[c['from']].add(t)
                self.edges.append((c['from'], t, c))
        for k, v in F.items():
            for i in v.get('implicit', []) or []:
                adj[k].add(i)
                self.edges.append((k, i, {'loc': v['loc'], 'how': 'implicit-dtor', 'h': [], 'tryAll': False, 'virt': False, 'from': k, 'to': i}))
        # member pointer calls
        meth_by_cls = collections.defaultdict(list)
        for k, v in F.items():
            if v.get('kind') == 'method':
                meth_by_cls[v.get('cls')].append(k)
        self.mp_resolved = []
        for mp in facts.D['MP']:
            cls = mp.get('cls'); sig = mp.get('sig', '')
            targets = set()
            if cls:
                for c in [cls] + sorted(facts.derived(cls)):
                    for k in meth_by_cls.get(c, []):
                        f = F[k]
                        s = '%s (%s)%s' % (f.get('ret', ''), ', '.join(f.get('params', [])), ' const' if f.get('const') else '')
                        if s == sig:
                            targets.add(k)
            for t in targets:
                adj[mp['from']].add(t)
                self.edges.append((mp['from'], t, {'loc': mp['loc'], 'how': 'memptr', 'h': mp.get('h', []), 'tryAll': False, 'virt': False, 'from': mp['from'], 'to': t}))
            self.mp_resolved.append((mp, len(targets)))
        self.adj = adj
        self._radj = None

    def all_over(self, k):
        if k in self._allover:
            return self._allover[k]
        seen = set(); st = [k]
        while st:
            x = st.pop()
            for o in self.overr.get(x, ()):
                if o not in seen:
                    seen.add(o); st.append(o)
        self._allover[k] = seen
        return seen

    @property
    def radj(self):
        if self._radj is None:
            r = collections.defaultdict(set)
            for a, bs in self.adj.items():
                for b in bs:
                    r[b].add(a)
            self._radj = r
        return self._radj

    def reach(self, roots, stop=None, cut_edges=None):
        """BFS; returns {node: parent}. stop(k) -> node not entered. cut_edges: set of (from,to)."""
        seen = {r: None for r in roots}
        q = collections.deque(roots)
        while q:
            x = q.popleft()
            for y in self.adj.get(x, ()):
                if y in seen:
                    continue
                if stop and stop(y):
                    continue
                if cut_edges and (x, y) in cut_edges:
                    continue
                seen[y] = x
                q.append(y)
        return seen

    def path(self, seen, k, maxlen=40):
        p = []
        while k is not None and len(p) < maxlen:
            p.append(short(self.facts.name.get(k, k)))
            k = seen[k]
        return list(reversed(p))
