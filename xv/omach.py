"""A small object machine on top of mast.Machine: objects with fields and a `this`, vectors and iterators / pointers into them, strings, member-function pointers,
reference out-parameters, and calls resolved to the parsed bodies (restricted by the world's `allow`).  Used by the rules that interpret a pipeline of several
classes (parser -> op-code map -> matcher).  Anything outside the subset raises mast.Unsupported: a rule turns that into exit 2, never into a verdict."""
from .mast import Machine, Unsupported, callee, strip_casts, pp, _Return


class Obj:
    def __init__(self, cls, fields=None):
        self.cls = cls
        self.fields = dict(fields or {})

    def __repr__(self):
        return '<%s>' % self.cls.split('::')[-1]


class Vec:
    def __init__(self, items=None, kind=''):
        self.items = list(items or [])
        self.kind = kind


class It:
    __slots__ = ('vec', 'i')

    def __init__(self, vec, i):
        self.vec, self.i = vec, i

    def __eq__(self, o):
        return isinstance(o, It) and o.vec is self.vec and o.i == self.i

    def __ne__(self, o):
        return not self.__eq__(o)

    def __hash__(self):
        return hash((id(self.vec), self.i))

    def __repr__(self):
        return 'It(%d/%d)' % (self.i, len(self.vec.items))


class MemFn:
    def __init__(self, usr, name):
        self.usr, self.name = usr, name


class LRef:
    """a C++ reference to a scalar that lives in a vector element or in a field: reads and writes go through"""
    __slots__ = ('box', 'key')

    def __init__(self, box, key):
        self.box, self.key = box, key

    def get(self):
        return self.box.items[self.key] if isinstance(self.box, Vec) else self.box[self.key]

    def set(self, v):
        if isinstance(self.box, Vec):
            self.box.items[self.key] = v
        else:
            self.box[self.key] = v


class Fault(Exception):
    """the interpreted code itself misbehaves (out-of-range access, failed assertion): a finding, not an analysis failure"""


class OMachine(Machine):
    def __init__(self, world, env=None, this=None):
        super().__init__(env or {}, call_hook=self._hook)
        self.world = world
        self.this = this
        self.tables = world.tables if hasattr(world, 'tables') else None
        self.global_hook = world.glob if hasattr(world, 'glob') else None

    # ---------------------------------------------------------------- expressions
    def deref(self, v):
        if isinstance(v, It):
            if not (0 <= v.i < len(v.vec.items)):
                raise Fault('read at position %d of a vector of %d' % (v.i, len(v.vec.items)))
            return v.vec.items[v.i]
        return v

    def target_obj(self, e):
        o = e.get('obj')
        if o is None or strip_casts(o).get('k') == 'This':
            return self.this
        v = self.ev(o)
        return self.deref(v) if isinstance(v, It) else v

    def ev(self, e):
        k = e['k']
        if k == 'This':
            return self.this
        if k == 'Ref' and e.get('d') in ('local', 'param'):
            v = self.env.get(e.get('id'), self)
            if isinstance(v, LRef):
                return v.get()
        if k == 'Member':
            tgt = self.target_obj(e)
            m = e['m']
            if isinstance(tgt, Obj):
                if m == '':
                    return tgt
                if m in tgt.fields:
                    return tgt.fields[m]
                if 'cv' in e:
                    return e['cv']
                r = self.world.member(self, tgt, e) if hasattr(self.world, 'member') else NotImplemented
                if r is not NotImplemented:
                    return r
                raise Unsupported('field %s of %r' % (m, tgt))
            if isinstance(tgt, dict) and m in tgt:
                return tgt[m]
            if 'cv' in e:
                return e['cv']
            r = self.world.member(self, tgt, e) if hasattr(self.world, 'member') else NotImplemented
            if r is not NotImplemented:
                return r
            raise Unsupported('member %s of %r' % (m, tgt))
        if k == 'Un':
            op = e['op']
            if op == '*':
                return self.deref(self.ev(e['e']))
            if op == '&':
                t = strip_casts(e['e'])
                if t.get('k') == 'Ref' and t.get('d') in ('memfn', 'method', 'function') or (t.get('k') == 'Ref' and t.get('usr') and t.get('d') not in ('local', 'param', 'global', 'enum')):
                    return MemFn(t.get('usr'), t.get('n'))
                if t.get('k') == 'OpCall' and t.get('op') == '[]':
                    v, i = self.ev(t['args'][0]), int(self.ev(t['args'][1]))
                    if isinstance(v, Vec):
                        return It(v, i)
                    if isinstance(v, It):
                        return It(v.vec, v.i + i)
                if t.get('k') == 'Un' and t['op'] == '*':
                    return self.ev(t['e'])
                if t.get('k') == 'Index':
                    b = self.ev(t['b'])
                    if isinstance(b, It):
                        return It(b.vec, b.i + int(self.ev(t['i'])))
                return self.ev(t)
            if op in ('++', '--'):
                t = strip_casts(e['e'])
                old = self.ev(t)
                d = 1 if op == '++' else -1
                new = It(old.vec, old.i + d) if isinstance(old, It) else old + d
                self.assign(t, new)
                return old if e.get('post') else new
        if k == 'Index':
            base = strip_casts(e['b'])
            if base.get('k') == 'Ref' and base.get('d') in ('global', 'staticlocal') and self.tables is not None:
                t = self.tables(base.get('q') or base['n'])
                if t is not None:
                    i = int(self.ev(e['i']))
                    if not (0 <= i < len(t)):
                        raise Fault('index %d outside the table %s[%d]' % (i, base['n'], len(t)))
                    v = t[i]
                    return int(v) if isinstance(v, bool) else v
            b = self.ev(e['b'])
            if isinstance(b, It):
                return self.deref(It(b.vec, b.i + int(self.ev(e['i']))))
            if isinstance(b, Vec):
                return self.deref(It(b, int(self.ev(e['i']))))
            if isinstance(b, str):
                i = int(self.ev(e['i']))
                return ord(b[i]) if i < len(b) else 0
            if isinstance(b, (list, tuple)):
                return b[int(self.ev(e['i']))]
        if k == 'Bin':
            op = e['op']
            if op in ('&&', '||'):
                return super().ev(e)
            if op == '=':
                v = self.ev(e['rhs'])
                self.assign(strip_casts(e['lhs']), v)
                return v
            if op in ('+=', '-=', '*=', '|=', '&='):
                t = strip_casts(e['lhs'])
                a, b = self.ev(t), self.ev(e['rhs'])
                if isinstance(a, It):
                    v = It(a.vec, a.i + (int(b) if op == '+=' else -int(b)))
                else:
                    v = {'+=': lambda: a + b, '-=': lambda: a - b, '*=': lambda: a * b, '|=': lambda: a | b, '&=': lambda: a & b}[op]()
                self.assign(t, v)
                return v
            if op in ('->*', '.*'):
                return ('bound', self.ev(e['lhs']), self.ev(e['rhs']))
            if op in ('==', '!=', '<', '>', '<=', '>=', '+', '-'):
                l, r = self.ev(e['lhs']), self.ev(e['rhs'])
                if isinstance(l, It) or isinstance(r, It):
                    return self.itop(op, l, r)
                if op in ('==', '!='):
                    if isinstance(l, (Obj, Vec, MemFn)) or isinstance(r, (Obj, Vec, MemFn)) or hasattr(l, 'identity') or hasattr(r, 'identity'):
                        same = l is r
                    else:
                        same = l == r
                    return int(bool(same) == (op == '=='))
                if op == '<': return int(l < r)
                if op == '>': return int(l > r)
                if op == '<=': return int(l <= r)
                if op == '>=': return int(l >= r)
                if op == '+':
                    if isinstance(l, str) and isinstance(r, int):
                        return l[r:]            # pointer into a character string
                    if isinstance(l, Vec) and isinstance(r, int):
                        return It(l, r)         # an array decays to a pointer to its first element
                    return l + r
                if op == '-': return l - r
        if k == 'Cast' and e.get('ck') in ('PointerToBoolean',):
            v = self.ev(e['e'])
            return int(not (v is None or (isinstance(v, int) and v == 0)))
        if k == 'Init':
            return [self.ev(x) for x in e['c']]
        return super().ev(e)

    def itop(self, op, l, r):
        if op == '+':
            return It(l.vec, l.i + int(r)) if isinstance(l, It) else It(r.vec, r.i + int(l))
        if op == '-':
            return l.i - r.i if isinstance(r, It) else It(l.vec, l.i - int(r))
        if not (isinstance(l, It) and isinstance(r, It)):
            if op in ('==', '!='):
                return int((op == '!='))
            raise Unsupported('pointer compared with %r' % (r if isinstance(l, It) else l,))
        a, b = l.i, r.i
        return int({'==': a == b and l.vec is r.vec, '!=': not (a == b and l.vec is r.vec), '<': a < b, '>': a > b, '<=': a <= b, '>=': a >= b}[op])

    # ---------------------------------------------------------------- scopes: destructors of local objects (RAII guards)
    def exec(self, s):
        k = s['k']
        if k == 'Compound' and getattr(self.world, 'destructor', None) is not None:
            if not hasattr(self, '_raii'):
                self._raii = []
            mark = len(self._raii)
            try:
                for c in s['c']:
                    self.exec(c)
            finally:
                for o in reversed(self._raii[mark:]):
                    body = self.world.destructor(o)
                    if callable(body):
                        body(o)                     # a modelled guard: its effect is given by the world
                    elif body is not None:
                        self.run_body(body, [], o)
                del self._raii[mark:]
            return
        if k == 'Decl':
            for v in s['vars']:
                if v.get('init') is None and v['id'] not in self.env and 'XObjectPtr' in (v.get('ty') or ''):
                    self.env[v['id']] = None        # a default-constructed (null) XObjectPtr
        if k == 'Decl':
            import re as _re
            for v in s['vars']:
                mt = _re.search(r'\[(\d+)\]\s*$', v.get('ty') or '')
                if mt and v.get('init') is None and v['id'] not in self.env:
                    self.env[v['id']] = Vec(['UNINIT'] * int(mt.group(1)))        # a local array; its name decays to a pointer to the first element
        if k == 'Decl':
            done = False
            for v in s['vars']:
                ty = (v.get('ty') or '').rstrip()
                if v.get('init') is not None and ty.endswith('&') and not ty.endswith('&&'):
                    try:
                        lr = self.lref(v['init'])
                    except Unsupported:
                        lr = None
                    if isinstance(lr, LRef):
                        self.env[v['id']] = lr
                        done = True
                    elif isinstance(lr, tuple):
                        self.env[v['id']] = lr[1]
                        done = True
            if done and len(s['vars']) == 1:
                return
        if k == 'Decl' and getattr(self.world, 'destructor', None) is not None:
            for v in s['vars']:
                if v.get('init') is not None and not isinstance(self.env.get(v['id']), LRef):
                    val = self.ev(v['init'])
                    self.env[v['id']] = val
                    if isinstance(val, Obj) and not (v.get('ty') or '').rstrip().endswith(('&', '*')) and self.world.destructor(val) is not None:
                        if not hasattr(self, '_raii'):
                            self._raii = []
                        self._raii.append(val)
            return
        return super().exec(s)

    # ---------------------------------------------------------------- stores
    def lref(self, init):
        """an LRef when the initialiser of a reference designates a scalar element of a vector or a scalar field of an object; else None"""
        t = strip_casts(init)
        if t is None:
            return None
        if (t.get('k') == 'OpCall' and t.get('op') == '[]' and len(t.get('args', [])) == 2) or t.get('k') == 'Index':
            b, i = (t['args'][0], t['args'][1]) if t.get('k') == 'OpCall' else (t['b'], t['i'])
            vec, idx = self.ev(b), self.ev(i)
            if isinstance(vec, It):
                vec, idx = vec.vec, vec.i + int(idx)
            if isinstance(vec, Vec) and isinstance(idx, (int, float)):
                idx = int(idx)
                if not (0 <= idx < len(vec.items)):
                    raise Fault('reference to position %d of a vector of %d' % (idx, len(vec.items)))
                if isinstance(vec.items[idx], (int, float, str, bool)) or vec.items[idx] is None:
                    return LRef(vec, idx)
                return ('VALUE', vec.items[idx])
            return None
        if t.get('k') == 'Member' and t.get('m'):
            tgt = self.target_obj(t)
            if isinstance(tgt, Obj) and t['m'] in tgt.fields:
                if isinstance(tgt.fields[t['m']], (int, float, str, bool)) or tgt.fields[t['m']] is None:
                    return LRef(tgt.fields, t['m'])
                return ('VALUE', tgt.fields[t['m']])
        return None

    def assign(self, t, v):
        k = t.get('k')
        if k == 'Ref' and t.get('d') in ('local', 'param'):
            cur = self.env.get(t['id'])
            if isinstance(cur, LRef):
                cur.set(v)
                return
            self.env[t['id']] = v
            return
        if k == 'Member':
            tgt = self.target_obj(t)
            if isinstance(tgt, Obj):
                if t['m'] == '':
                    return
                tgt.fields[t['m']] = v
                return
            raise Unsupported('store into member %s of %r' % (t['m'], tgt))
        if k == 'OpCall' and t.get('op') == '[]':
            vec, i = self.ev(t['args'][0]), int(self.ev(t['args'][1]))
            if isinstance(vec, It):
                vec, i = vec.vec, vec.i + i
            if isinstance(vec, Vec):
                if not (0 <= i < len(vec.items)):
                    raise Fault('store at position %d of a vector of %d' % (i, len(vec.items)))
                vec.items[i] = v
                return
            if hasattr(self.world, 'store'):
                if self.world.store(self, t, v):
                    return
            raise Unsupported('indexed store into %r' % (vec,))
        if k == 'Un' and t.get('op') == '*':
            p = self.ev(t['e'])
            if isinstance(p, It):
                if not (0 <= p.i < len(p.vec.items)):
                    raise Fault('store through a pointer to position %d of %d' % (p.i, len(p.vec.items)))
                p.vec.items[p.i] = v
                return
        if k == 'Index':
            b = self.ev(t['b'])
            i = int(self.ev(t['i']))
            if isinstance(b, It):
                b, i = b.vec, b.i + i
            if isinstance(b, Vec):
                b.items[i] = v
                return
        if k == 'MCall' and t.get('n') in ('back', 'front') and not t.get('args'):
            vec = self.target_obj(t)
            if isinstance(vec, Vec):
                if not vec.items:
                    raise Fault('%s() of an empty vector' % t['n'])
                vec.items[-1 if t['n'] == 'back' else 0] = v
                return
        if hasattr(self.world, 'store') and self.world.store(self, t, v):
            return
        raise Unsupported('assignment target ' + pp(t)[:60])

    # ---------------------------------------------------------------- calls
    def run_body(self, a, args, this, call=None):
        w = self.world
        env = {}
        for i, p in enumerate(a['params']):
            if i < len(args):
                env[p['id']] = args[i]
            elif p.get('init') is not None:
                env[p['id']] = self.ev(p['init'])
            else:
                raise Unsupported('missing argument %d of %s (%s:%s)' % (i, a.get('fq') or a.get('name') or '?', a.get('file', '').split('/')[-1], a.get('line')))
        w.depth = getattr(w, 'depth', 0) + 1
        w.calls = getattr(w, 'calls', 0) + 1
        if w.depth > 80 or w.calls > getattr(w, 'max_calls', 20000):
            w.depth -= 1
            raise Fault('does not terminate (depth %d, %d calls)' % (w.depth, w.calls))
        try:
            sub = type(self)(w, env, this)
            sub.fuel = getattr(self, 'fuel', 20000)
            r = sub.call(a['body'])
            self.fuel = sub.fuel
            if call is not None:
                for p, x in zip(a['params'], call.get('args', [])):
                    ty = p.get('ty', '')
                    if ty.rstrip().endswith('&') and not ty.lstrip().startswith('const'):
                        t = strip_casts(x)
                        lval = t.get('k') in ('Ref', 'Member', 'Index') or (t.get('k') == 'OpCall' and t.get('op') == '[]') or (t.get('k') == 'Un' and t.get('op') == '*')
                        if lval and p['id'] in sub.env and not isinstance(sub.env[p['id']], (Obj, Vec)):
                            try:
                                self.assign(t, sub.env[p['id']])
                            except Unsupported:
                                pass
            return r
        finally:
            w.depth -= 1

    def ev_arg(self, x):
        """an argument: a local that is declared but not yet assigned may be handed over by reference"""
        t = strip_casts(x)
        if t is not None and t.get('k') == 'Ref' and t.get('d') == 'local' and t.get('id') not in self.env:
            return None
        return self.ev(x)

    def vec_method(self, v, n, c):
        a = c.get('args', [])
        if n in ('begin', 'end'):
            return It(v, 0 if n == 'begin' else len(v.items))
        if n == 'size':
            return len(v.items)
        if n == 'empty':
            return int(not v.items)
        if n in ('reserve', 'getMemoryManager', 'shrink_to_fit'):
            return 0
        if n == 'capacity':
            return len(v.items)
        if n == 'clear':
            v.items[:] = []
            return 0
        if n == 'push_back':
            v.items.append(self.ev(a[0]))
            return 0
        if n == 'pop_back':
            if not v.items:
                raise Fault('pop_back of an empty vector')
            v.items.pop()
            return 0
        if n in ('back', 'front'):
            if not v.items:
                raise Fault('%s() of an empty vector' % n)
            return v.items[-1 if n == 'back' else 0]
        if n == 'insert':
            it = self.ev(a[0])
            if not isinstance(it, It) or it.vec is not v or not (0 <= it.i <= len(v.items)):
                raise Fault('insert at a position outside the vector (%r)' % (it,))
            if len(a) == 2:
                v.items.insert(it.i, self.ev(a[1]))
            elif len(a) == 3:
                x, y = self.ev(a[1]), self.ev(a[2])
                if isinstance(x, It) and isinstance(y, It):
                    v.items[it.i:it.i] = x.vec.items[x.i:y.i]
                else:
                    v.items[it.i:it.i] = [y] * int(x)
            else:
                raise Unsupported('vector insert/%d' % len(a))
            return It(v, it.i)
        if n == 'erase':
            it = self.ev(a[0])
            if len(a) == 1:
                del v.items[it.i]
            else:
                e2 = self.ev(a[1])
                del v.items[it.i:e2.i]
            return It(v, it.i)
        if n == 'swap':
            o = self.ev(a[0])
            v.items, o.items = o.items, v.items
            return 0
        if n == 'resize':
            sz = int(self.ev(a[0]))
            if sz < len(v.items):
                del v.items[sz:]
            elif len(a) > 1:
                fill = self.ev(a[1])
                v.items.extend([fill] * (sz - len(v.items)))
            else:
                # value-initialised elements: what they are follows from the element type of the vector
                cls = c.get('cls') or ''
                inner = cls[cls.index('<') + 1:] if '<' in cls else ''
                for _ in range(sz - len(v.items)):
                    if inner.lstrip().startswith(('xalanc_1_12::XalanVector', 'XalanVector')):
                        v.items.append(Vec([]))
                    elif 'XalanDOMString' in inner.split(',')[0]:
                        v.items.append('')
                    else:
                        v.items.append(0)
            return 0
        raise Unsupported('vector method ' + n)

    def _hook(self, m, c):
        w = self.world
        r = w.hook(self, c)
        if r is not NotImplemented:
            return r
        k = c['k']
        n = c.get('n') or (callee(c).split('::')[-1] if c.get('fn') != '<memptr>' else '<memptr>')
        if n == '__assert_fail':
            raise Fault('assertion fails: ' + (pp(c['args'][0])[:100] if c.get('args') else ''))
        if k == 'OpCall':
            op = c['op']
            a = c['args']
            if op in ('*', '->') and len(a) == 1:
                return self.deref(self.ev(a[0]))
            if op == '[]' and len(a) == 2:
                v, i = self.ev(a[0]), self.ev(a[1])
                if isinstance(v, Vec):
                    return self.deref(It(v, int(i)))
                if isinstance(v, It):
                    return self.deref(It(v.vec, v.i + int(i)))
                if isinstance(v, str):
                    i = int(i)
                    if i == len(v):
                        return 0
                    if not (0 <= i < len(v)):
                        raise Fault('character %d of a string of %d' % (i, len(v)))
                    return ord(v[i])
                if isinstance(v, (list, tuple)):
                    return v[int(i)]
            if op == '=' and len(a) == 2:
                v = self.ev(a[1])
                self.assign(strip_casts(a[0]), v)
                return v
            if op in ('==', '!=', '<', '>', '<=', '>=', '+', '-') and len(a) == 2:
                l, r2 = self.ev(a[0]), self.ev(a[1])
                if isinstance(l, It) or isinstance(r2, It):
                    return self.itop(op, l, r2)
                if op in ('==', '!='):
                    return int((l == r2) == (op == '=='))
            if op in ('++', '--'):
                t = strip_casts(a[0])
                old = self.ev(t)
                new = It(old.vec, old.i + (1 if op == '++' else -1))
                self.assign(t, new)
                return old if len(a) == 2 else new
            if op == '()' and c.get('usr'):
                body = w.facts.ast(c['usr'])
                if body is not None and body.get('body') is not None and w.allow(body, c):
                    tgt = self.ev(a[0])
                    return self.run_body(body, [self.ev(x) for x in a[1:]], tgt, {'args': a[1:]})
            return NotImplemented
        if k == 'MCall':
            if c.get('fn') == '<memptr>':
                b = self.ev(c['callee'])
                if isinstance(b, tuple) and b[0] == 'bound' and isinstance(b[2], MemFn):
                    body = w.facts.ast(b[2].usr) if b[2].usr else None
                    if body is None or body.get('body') is None:
                        raise Unsupported('member function pointer to %s has no body' % b[2].name)
                    return self.run_body(body, [self.ev(x) for x in c['args']], b[1], c)
                raise Unsupported('call through ' + repr(b))
            tgt = self.target_obj(c)
            if isinstance(tgt, Vec):
                return self.vec_method(tgt, n, c)
            if isinstance(tgt, str):
                if n in ('length', 'size'):
                    return len(tgt)
                if n == 'empty':
                    return int(not tgt)
                if n in ('c_str', 'data', 'begin'):
                    return tgt
            if c.get('usr'):
                body = w.facts.ast(c['usr'])
                if (body is None or body.get('body') is None) and c.get('virt') and hasattr(w, 'resolve_virtual'):
                    body = w.resolve_virtual(tgt, c)
                if body is not None and body.get('body') is not None and w.allow(body, c):
                    return self.run_body(body, [self.ev_arg(x) for x in c.get('args', [])], tgt, c)
            return NotImplemented
        if k == 'Call' and c.get('usr'):
            body = w.facts.ast(c['usr'])
            if body is not None and body.get('body') is not None and w.allow(body, c):
                return self.run_body(body, [self.ev_arg(x) for x in c.get('args', [])], None, c)
        if k == 'Call':
            # the handful of <algorithm> / <cstdlib> functions a maintainer is likely to reach for inside the functions these rules interpret
            a = c.get('args', [])
            if n in ('min', 'max') and len(a) == 2:
                x, y = self.ev(a[0]), self.ev(a[1])
                if isinstance(x, (int, float)) and isinstance(y, (int, float)):
                    return min(x, y) if n == 'min' else max(x, y)
            if n in ('abs', 'labs', 'llabs', 'fabs') and len(a) == 1:
                x = self.ev(a[0])
                if isinstance(x, (int, float)):
                    return abs(x)
            if n == 'swap' and len(a) == 2:
                t0, t1 = strip_casts(a[0]), strip_casts(a[1])
                x, y = self.ev(t0), self.ev(t1)
                if isinstance(x, Vec) and isinstance(y, Vec):
                    x.items, y.items = y.items, x.items
                else:
                    self.assign(t0, y); self.assign(t1, x)
                return 0
            if n in ('find', 'fill', 'copy', 'distance', 'reverse', 'count') and len(a) >= 2:
                v = [self.ev(x) for x in a]
                if isinstance(v[0], It) and isinstance(v[1], It) and v[0].vec is v[1].vec and 0 <= v[0].i <= v[1].i <= len(v[0].vec.items):
                    items = v[0].vec.items
                    if n == 'distance' and len(v) == 2:
                        return v[1].i - v[0].i
                    if n == 'reverse' and len(v) == 2:
                        items[v[0].i:v[1].i] = items[v[0].i:v[1].i][::-1]
                        return 0
                    if n in ('find', 'count') and len(v) == 3 and not isinstance(v[2], (It, Vec, MemFn)):
                        hits = [i for i in range(v[0].i, v[1].i) if (items[i] is v[2] if isinstance(v[2], Obj) or hasattr(v[2], 'identity') else items[i] == v[2])]
                        if n == 'count':
                            return len(hits)
                        return It(v[0].vec, hits[0] if hits else v[1].i)
                    if n == 'fill' and len(v) == 3:
                        for i in range(v[0].i, v[1].i):
                            items[i] = v[2]
                        return 0
                    if n == 'copy' and len(v) == 3 and isinstance(v[2], It):
                        src = items[v[0].i:v[1].i]
                        d = v[2]
                        if d.i + len(src) > len(d.vec.items):
                            raise Fault('copy of %d elements to position %d of a vector of %d' % (len(src), d.i, len(d.vec.items)))
                        d.vec.items[d.i:d.i + len(src)] = src
                        return It(d.vec, d.i + len(src))
        if k == 'Ctor' and c.get('usr'):
            body = w.facts.ast(c['usr'])
            if body is not None and body.get('body') is not None and body.get('inits') is not None and w.allow(body, c) and getattr(w, 'construct_objects', False):
                return self.construct(body, c)
        if k == 'Ctor' and len(c.get('args', [])) == 1:
            return self.ev(c['args'][0])
        return NotImplemented

    def construct(self, body, c):
        """run a constructor: member initialisers, then the body, on a fresh object"""
        args = [self.ev(x) for x in c.get('args', [])]
        if len(args) == 1 and isinstance(args[0], Obj) and args[0].cls == (c.get('cls') or ''):
            o = Obj(args[0].cls, dict(args[0].fields))       # copy construction
            return o
        o = Obj(c.get('cls') or '?', {})
        env = {p['id']: v for p, v in zip(body['params'], args)}
        sub = type(self)(self.world, env, o)
        sub.fuel = getattr(self, 'fuel', 20000)
        for ini in body.get('inits') or []:
            if ini.get('field') and ini.get('e') is not None:
                try:
                    o.fields[ini['field']] = sub.ev(ini['e'])
                except Unsupported:
                    o.fields[ini['field']] = None
        sub.call(body['body'])
        return o
