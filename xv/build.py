"""Compile DB, fact extraction (parallel, cached by content hash) and merge.

Nothing here runs code of /repo: the repository is only parsed (clang front end
through the xvfacts libTooling tool)."""
import fcntl, glob, hashlib, json, os, pickle, shutil, subprocess, sys, time, collections

VERIF = os.path.dirname(os.path.dirname(os.path.abspath(__file__)))
REPO = os.environ.get('XV_REPO', '/repo')
BUILD = os.path.join(REPO, '_build')
CACHE = os.environ.get('XV_CACHE', os.path.join(VERIF, '.cache'))
XVFACTS = os.path.join(VERIF, 'bin', 'xvfacts')
NPROC = int(os.environ.get('XV_JOBS', str(os.cpu_count() or 4)))

# directories of the compile DB that are not part of the shipped library / API clients
EXCLUDE_DIRS = ('/src/xalanc/Utils/', '/src/xalanc/TestXSLT/', '/src/xalanc/TestXPath/', '/src/xalanc/Harness/', '/Tests/')
LIB_PREFIX = '/src/xalanc/'


class AnalysisBroken(Exception):
    """exit 2: the machinery, not the repository, is broken (anchor gone, floor not met...)"""


def log(*a):
    print('[xv]', *a, file=sys.stderr, flush=True)


def ensure_build_dir():
    """compile DB + generated headers; no library object is compiled."""
    if not os.path.exists(os.path.join(BUILD, 'build.ninja')):
        log('no _build/build.ninja: configuring with cmake (no compilation)')
        subprocess.run(['cmake', '-G', 'Ninja', '-S', REPO, '-B', BUILD, '-DCMAKE_BUILD_TYPE=RelWithDebInfo'],
                       check=True, stdout=subprocess.DEVNULL)
    gen = [os.path.join(BUILD, 'src/xalanc/PlatformSupport/LocalMsgIndex.hpp'),
           os.path.join(BUILD, 'src/xalanc/NLS/include/LocalMsgData.hpp')]
    if not all(os.path.exists(g) for g in gen):
        log('generating message headers (ninja inmemory-dependencies)')
        r = subprocess.run(['ninja', '-C', BUILD, 'src/xalanc/Utils/inmemory-dependencies'], stdout=subprocess.DEVNULL)
        if r.returncode != 0 or not all(os.path.exists(g) for g in gen):
            raise AnalysisBroken('cannot generate LocalMsgIndex.hpp / LocalMsgData.hpp')
    return gen


def compile_db():
    ensure_build_dir()
    out = subprocess.run(['ninja', '-C', BUILD, '-t', 'compdb'], check=True, capture_output=True, text=True).stdout
    db = json.loads(out)
    seen = {}
    for e in db:
        f = os.path.normpath(os.path.join(e['directory'], e['file']))
        if not f.endswith(('.cpp', '.c')):
            continue
        if not f.startswith(REPO + '/') or f.startswith(BUILD + '/'):
            continue
        if f in seen:
            continue
        cmd = e['command']
        # keep the build's flags; drop dependency-file options; clang analyses, it does not emit objects
        toks = cmd.split()
        keep = []
        skip = 0
        for t in toks:
            if skip:
                skip -= 1
                continue
            if t in ('-MD',):
                continue
            if t in ('-MT', '-MF', '-o'):
                skip = 1
                continue
            keep.append(t)
        if not any(t.startswith('-std=') for t in keep):
            keep.insert(1, '-std=gnu++14')
        seen[f] = {'directory': e['directory'], 'file': f, 'command': ' '.join(keep)}
    return seen


def unit_kind(f):
    rel = f[len(REPO):]
    if any(x in rel for x in EXCLUDE_DIRS):
        return 'excluded'
    if rel.startswith(LIB_PREFIX):
        if '/XalanExe/' in rel:
            return 'exe'
        return 'lib'
    if rel.startswith('/samples/'):
        return 'client'
    return 'excluded'


def tree_hash(db, overlay=None):
    h = hashlib.sha256()
    files = []
    for root in (os.path.join(REPO, 'src'), os.path.join(REPO, 'samples'), os.path.join(BUILD, 'src/xalanc/PlatformSupport'),
                 os.path.join(BUILD, 'src/xalanc/NLS/include'), os.path.join(BUILD, 'src/xalanc/Include')):
        for dp, dn, fn in os.walk(root):
            dn.sort()
            for f in sorted(fn):
                if f.endswith(('.cpp', '.hpp', '.h', '.c', '.inl')):
                    files.append(os.path.join(dp, f))
    for f in files:
        h.update(f.encode())
        with open(f, 'rb') as fh:
            h.update(hashlib.sha256(fh.read()).digest())
    for f in sorted(db):
        h.update(db[f]['command'].encode())
    with open(XVFACTS, 'rb') as fh:
        h.update(hashlib.sha256(fh.read()).digest())
    for f in sorted(glob.glob(os.path.join(VERIF, 'fixtures', '*.cpp'))):
        with open(f, 'rb') as fh:
            h.update(hashlib.sha256(fh.read()).digest())
    if overlay:
        for k in sorted(overlay):
            h.update(k.encode())
            with open(overlay[k], 'rb') as fh:
                h.update(fh.read())
    return h.hexdigest()[:24]


def make_overlay_yaml(overlay, path):
    """overlay: {repo file path -> replacement file path}; clang VFS overlay"""
    roots = []
    for k, v in overlay.items():
        roots.append({'type': 'file', 'name': k, 'external-contents': v})
    y = {'version': 0, 'case-sensitive': 'true', 'roots': roots}
    with open(path, 'w') as f:
        json.dump(y, f)  # JSON is valid YAML


def extract(scope='lib', overlay=None, force=False):
    """returns directory holding facts for the requested scope ('lib' or 'all').
    'all' additionally parses the Xalan executable and the sample programs."""
    if not os.path.exists(XVFACTS):
        raise AnalysisBroken('bin/xvfacts missing: run MANIFEST.setup_cmd (make -C /verif)')
    db = compile_db()
    units = [f for f in sorted(db) if unit_kind(f) == 'lib' or (scope == 'all' and unit_kind(f) in ('exe', 'client'))]
    if len(units) < 300:
        raise AnalysisBroken('compile DB lists only %d library units (floor 300)' % len(units))
    key = tree_hash(db, overlay) + '-' + scope
    os.makedirs(CACHE, exist_ok=True)
    out = os.path.join(CACHE, 'facts-' + key)
    lock = open(os.path.join(CACHE, 'lock'), 'w')
    fcntl.flock(lock, fcntl.LOCK_EX)
    try:
        if os.path.exists(os.path.join(out, 'DONE')) and not force:
            try:
                os.utime(out)           # least recently used goes first, and a cache in use by a concurrent check is never the oldest
            except OSError:
                pass
            return out, units
        # evict old caches (keep disk use bounded); never one that was used in the last hour (a concurrent check may be reading it)
        olds = sorted(glob.glob(os.path.join(CACHE, 'facts-*')), key=os.path.getmtime)
        for o in olds[:-8] if len(olds) > 8 else []:
            if time.time() - os.path.getmtime(o) > 3600:
                shutil.rmtree(o, ignore_errors=True)
        shutil.rmtree(out, ignore_errors=True)
        os.makedirs(os.path.join(out, 'marks'))
        with open(os.path.join(out, 'compile_commands.json'), 'w') as f:
            json.dump([db[u] for u in units], f)
        extra = []
        if overlay:
            extra = ['--map=%s=%s' % (k, v) for k, v in sorted(overlay.items())]
        t0 = time.time()
        # order: big units first, round-robin into batches
        units_sorted = sorted(units, key=lambda u: -os.path.getsize(u))
        nb = NPROC * 3
        batches = [units_sorted[i::nb] for i in range(nb)]
        procs = []
        pending = [b for b in batches if b]
        errs = []
        running = []
        while pending or running:
            while pending and len(running) < NPROC:
                b = pending.pop(0)
                p = subprocess.Popen([XVFACTS, '-p', out, '-o', out, '--root', REPO + '/', '--extra-arg=-w', '--extra-arg=-Wno-everything'] + extra + b,
                                     stdout=subprocess.DEVNULL, stderr=subprocess.PIPE, text=True, cwd=out)
                running.append((p, b))
            p, b = running.pop(0)
            _, err = p.communicate()
            if p.returncode != 0:
                errs.append((b, err[-2000:]))
        if errs:
            for b, e in errs[:3]:
                log('extraction failed for batch', b[:2], e)
            raise AnalysisBroken('xvfacts failed on %d batches: %s' % (len(errs), errs[0][1][-500:]))
        # checker fixtures: tiny positive / negative examples every zero-count rule must (not) match, parsed with the same tool
        fx = sorted(glob.glob(os.path.join(VERIF, 'fixtures', '*.cpp')))
        if fx:
            fdb = [{'directory': os.path.join(VERIF, 'fixtures'), 'file': f, 'command': 'c++ -std=gnu++14 -I%s/src -c %s' % (REPO, f)} for f in fx]
            fxdir = os.path.join(out, 'fx')
            os.makedirs(fxdir)
            with open(os.path.join(fxdir, 'compile_commands.json'), 'w') as f:
                json.dump(fdb, f)
            r = subprocess.run([XVFACTS, '-p', fxdir, '-o', out, '--root', os.path.join(VERIF, 'fixtures') + '/', '--extra-arg=-w'] + fx, stdout=subprocess.DEVNULL, stderr=subprocess.PIPE, text=True, cwd=out)
            if r.returncode != 0:
                raise AnalysisBroken('xvfacts failed on the checker fixtures: ' + r.stderr[-500:])
        log('extracted %d units in %.1fs' % (len(units), time.time() - t0))
        merge(out)
        open(os.path.join(out, 'DONE'), 'w').write(key)
        return out, units
    finally:
        fcntl.flock(lock, fcntl.LOCK_UN)
        lock.close()


def merge(out):
    t0 = time.time()
    F = {}; K = {}; calls = []; W = []; G = []; T = []; S = []; CC = []; SL = []; MP = []; IND = []; NEW = []; DEL = []; TB = {}; GV = {}; EN = []
    nerr = 0
    for fn in sorted(glob.glob(os.path.join(out, '*.facts.jsonl'))):
        with open(fn) as fh:
            for l in fh:
                o = json.loads(l); t = o['t']
                if t == 'F':
                    k = o['id']
                    if k not in F or (o.get('def') and not F[k].get('def')):
                        old = F.get(k, {})
                        F[k] = o
                        if old.get('implicit') and not o.get('implicit'):
                            F[k]['implicit'] = old['implicit']
                elif t == 'K': K[o['name']] = o
                elif t == 'C': calls.append(o)
                elif t == 'W': W.append(o)
                elif t == 'G': G.append(o)
                elif t == 'T': T.append(o)
                elif t == 'S': S.append(o)
                elif t == 'CC': CC.append(o)
                elif t == 'SL': SL.append(o)
                elif t == 'MP': MP.append(o)
                elif t == 'IND': IND.append(o)
                elif t == 'NEW': NEW.append(o)
                elif t == 'DEL': DEL.append(o)
                elif t == 'TB': TB[o['table']] = o
                elif t == 'GV': GV[o['var']] = o
                elif t == 'EN': EN.append(o)
                elif t == 'U': nerr += o['errors']

    def dedupe(lst, keyf):
        seen = {}
        for o in lst:
            seen.setdefault(keyf(o), o)
        return list(seen.values())
    calls = dedupe(calls, lambda o: (o['from'], o['to'], o['loc'], o['how']))
    W = dedupe(W, lambda o: (o['from'], o['field'], o['kind'], o['loc'], o.get('callee', '')))
    G = dedupe(G, lambda o: (o['from'], o['var'], o['kind'], o['loc'], o.get('callee', '')))
    T = dedupe(T, lambda o: (o['from'], o['type'], o['loc']))
    S = dedupe(S, lambda o: (o['from'], o['loc']))
    CC = dedupe(CC, lambda o: (o['from'], o['loc'], o['toT']))
    SL = dedupe(SL, lambda o: (o['from'], o['var']))
    MP = dedupe(MP, lambda o: (o['from'], o['loc']))
    IND = dedupe(IND, lambda o: (o['from'], o['loc']))
    NEW = dedupe(NEW, lambda o: (o['from'], o['loc'], o['type']))
    DEL = dedupe(DEL, lambda o: (o['from'], o['loc']))
    # AST index: usr -> (file, offset)
    idx = {}
    byname = collections.defaultdict(list)
    for fn in sorted(glob.glob(os.path.join(out, '*.ast.jsonl'))):
        with open(fn, 'rb') as fh:
            off = 0
            for l in fh:
                # cheap header parse: usr and name are the leading keys? not guaranteed -> parse minimal
                try:
                    head = json.loads(l)
                except Exception:
                    off += len(l); continue
                idx[head['usr']] = (os.path.basename(fn), off, len(l))
                byname[head['name']].append(head['usr'])
                off += len(l)
    D = dict(F=F, K=K, calls=calls, W=W, G=G, T=T, S=S, CC=CC, SL=SL, MP=MP, IND=IND, NEW=NEW, DEL=DEL, TB=TB, GV=GV, EN=EN,
             astidx=idx, astbyname=dict(byname), parse_errors=nerr)
    with open(os.path.join(out, 'facts.pkl'), 'wb') as f:
        pickle.dump(D, f, protocol=4)
    log('merged: %d functions, %d calls, %d writes, %d tables, %d ASTs, parse errors %d, %.1fs' % (len(F), len(calls), len(W), len(TB), len(idx), nerr, time.time() - t0))


if __name__ == '__main__':
    scope = sys.argv[1] if len(sys.argv) > 1 else 'lib'
    d, u = extract(scope)
    print(d, len(u))
