// Checker fixtures for the C03 rules: functions named bad_* must be reported by the rule in their name,
// functions named good_* must not.  Parsed by xvfacts on every run; never linked into anything.
#include <cstdio>
#include <cstddef>

namespace xvfix {

// ---- R5: unsigned wrap under a loop guard
void bad_r5_wrap(const unsigned short* chars, std::size_t length, int& out)
{
    std::size_t i = 0;
    while (i < length)
    {
        if (chars[i] == ']' && i - length > 2 && chars[i + 1] == ']')   // i < length here: i - length wraps
            ++out;
        ++i;
    }
}

void good_r5_distance(const unsigned short* chars, std::size_t length, int& out)
{
    std::size_t i = 0;
    while (i < length)
    {
        if (chars[i] == ']' && length - i > 2 && chars[i + 1] == ']')
            ++out;
        ++i;
    }
}

// ---- R3: bounded writes into fixed buffers
void bad_r3_sprintf(double d, char* sink)
{
    char buf[101];
    std::sprintf(buf, "%.10f", d);          // up to 1+309+1+10+1 bytes
    sink[0] = buf[0];
}

void good_r3_sprintf(double d, char* sink)
{
    char buf[400];
    std::sprintf(buf, "%.10f", d);
    sink[0] = buf[0];
}

void good_r3_int(long v, char* sink)
{
    char buf[32];
    std::sprintf(buf, "%ld", v);
    sink[0] = buf[0];
}

// ---- R4: float -> integer conversion without a range guard
long bad_r4_cast(double d)
{
    return static_cast<long>(d);
}

long good_r4_cast(double d)
{
    if (d != d || d < -9.0e18 || d > 9.0e18)
        return 0;
    return static_cast<long>(d);
}

long bad_r4_mod(double a, double b)
{
    if (a != a || b != b || a < -9.0e18 || a > 9.0e18 || b < -9.0e18 || b > 9.0e18)
        return 0;
    return static_cast<long>(a) % static_cast<long>(b);    // b == 0, or LONG_MIN % -1
}

}

namespace xvfix {

// ---- R8: integer division by a run-time divisor
unsigned long bad_r8_div(unsigned long len, unsigned long groupSize)
{
    if (len <= groupSize)
        return len;
    return len + len / groupSize;          // groupSize == 0 and len > 0
}

unsigned long good_r8_div(unsigned long len, unsigned long groupSize)
{
    if (groupSize == 0)
        return len;
    return len + len / groupSize;
}


// ---- R9: a pointer is dereferenced on a path on which a test has just established that it is null
struct R9Node { R9Node* parent; int kind; int match(const R9Node* n) const { return n->kind; } };

int bad_r9_precedence(const R9Node* pos, const R9Node* from)
{
    const R9Node* next = pos->parent;
    if (0 != next && next->kind == 9 || (0 != from && from->match(next) != 0))     // (a && b) || c : c runs with next == 0
        return 1;
    return 0;
}

int good_r9_precedence(const R9Node* pos, const R9Node* from)
{
    const R9Node* next = pos->parent;
    if (0 != next && (next->kind == 9 || (0 != from && from->match(next) != 0)))
        return 1;
    return 0;
}

int good_r9_correlated(const R9Node* lhs, const R9Node* rhs)
{
    if (lhs == 0 && rhs != 0)
        return 1;
    else if (rhs == 0)
        return 0;
    return lhs->kind < rhs->kind;      // lhs == 0 implies rhs == 0 here, which returned above
}

int good_r9_flag(R9Node* context)
{
    int score = 1;
    if (0 == context)
        score = 0;
    if (score == 0)
        return 0;
    return context->kind;
}

// ---- R10: stores into fixed-size local arrays
double bad_r10_guard_on_other_length(const unsigned short* s, unsigned long len, unsigned long numLen)
{
    if (numLen < 200u)
    {
        char buf[200];
        for (unsigned long i = 0; i < len; ++i)      // len is not what the guard bounds
            buf[i] = char(s[i]);
        buf[len] = 0;
        return buf[0];
    }
    return 0;
}

double good_r10_guarded(const unsigned short* s, unsigned long len)
{
    if (len >= 200u)
        return 0;
    char buf[200];
    for (unsigned long i = 0; i <= len; ++i)
        buf[i] = char(s[i]);
    return buf[0];
}

// ---- R9 (b): a report that does not end the path
struct R9Ctx { enum eClass { eWarning, eError }; void problem(int src, eClass c, const char* msg) { if (c == eError) throw 1; } };

int bad_r9_warning_falls_through(R9Ctx& ctx, const R9Node* ns)
{
    if (ns == 0)
    {
        ctx.problem(0, R9Ctx::eWarning, "not declared");
    }
    return ns->kind;
}

int good_r9_error_ends_path(R9Ctx& ctx, const R9Node* ns)
{
    if (ns == 0)
    {
        ctx.problem(0, R9Ctx::eError, "not declared");
    }
    return ns->kind;
}
}
