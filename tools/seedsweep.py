#!/usr/bin/env python3
"""tools/seedsweep.py : run every kept seed's patch through an overlay against the quick check of its property (and of the property named in check_result when another one catches it);
prints one line per seed: caught / stale / MISSED"""
import os, sys, json, subprocess, re, tempfile, shutil
sys.path.insert(0, '/verif')
from xv import selftest
from concurrent.futures import ThreadPoolExecutor
V = '/verif'
seeds = sorted(os.listdir(V + '/seeded'))
def one(name):
    d = os.path.join(V, 'seeded', name)
    meta = json.load(open(os.path.join(d, 'meta.json')))
    prop = meta['property']
    props = [prop] + [p for p in re.findall(r'\bC\d\d\b', meta.get('check_result', '')) if p != prop][:1]
    od, err = selftest.make_overlay(os.path.join(d, 'patch.diff'), 'sweep_' + name[:40])
    if od is None:
        return name, 'STALE', err[:80]
    res = 'MISSED'
    detail = ''
    try:
        for p in props:
            ev = tempfile.mkdtemp(prefix='xv-ev-', dir=V + '/.cache')
            env = dict(os.environ, XV_EVIDENCE_DIR=ev)
            r = subprocess.run([V + '/check', p, '--overlay', od, '--no-selftest'], capture_output=True, text=True, env=env, cwd=V)
            shutil.rmtree(ev, ignore_errors=True)
            if 'VIOLATION property=' in r.stdout:
                m = re.search(r'^  (C\d\d-R\w+) ', r.stdout, re.M)
                res, detail = 'caught', (m.group(1) if m else p)
                break
            detail = 'exit %d' % r.returncode
    finally:
        shutil.rmtree(od, ignore_errors=True)
    return name, res, detail
only = sys.argv[1:] 
todo = [s for s in seeds if not only or any(o in s for o in only)]
with ThreadPoolExecutor(max_workers=3) as ex:
    for name, res, detail in ex.map(one, todo):
        print('%-8s %s %s' % (res, name, detail), flush=True)
