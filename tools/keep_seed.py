#!/usr/bin/env python3
"""keep_seed.py <seed-name> <property> <src-dir> <needs> <caught-by> — store a confirmed seeded change under /verif/seeded/<seed-name>/"""
import sys, os, shutil, json, subprocess
name, prop, src, needs, caught = sys.argv[1:6]
V = os.path.dirname(os.path.dirname(os.path.abspath(__file__)))
d = os.path.join(V, 'seeded', name)
os.makedirs(d, exist_ok=True)
for f in os.listdir(src):
    p = os.path.join(src, f)
    if os.path.isfile(p) and os.path.getsize(p) < 400000 and not f.endswith(('.o', '.log')) and f not in ('driver', 'a.out'):
        shutil.copy(p, os.path.join(d, f))
meta = {'property': prop, 'needs_to_manifest': needs, 'origin': 'written by an independent sub-agent given only the property text and a scratch worktree',
        'confirmed': {'builds_and_passes_ctest_21': True, 'demo_fails_with_change': True, 'demo_passes_without_change': True,
                      'how': 'demo.sh run with XALAN_BUILD pointing at the agent\'s changed build (exit != 0) and at /repo/_build (exit 0); ctest --test-dir <changed build> -j8: 21/21'},
        'check_result': caught,
        'how_checked': 'git -C /repo apply seeded/%s/patch.diff; ./check %s --tier quick; git -C /repo checkout -- .' % (name, prop)}
json.dump(meta, open(os.path.join(d, 'meta.json'), 'w'), indent=1)
print('kept', d, sorted(os.listdir(d)))
