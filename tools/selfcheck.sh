#!/bin/sh
# Simulates the harness: fresh clone of /verif HEAD, setup_cmd, every quick_cmd once on the unchanged tree, evidence validation, timings.

D=$(mktemp -d /tmp/selfcheck.XXXXXX)
git -C /verif clone -q /verif "$D/verif"
cd "$D/verif"
/usr/bin/time -f "setup %es" make -s all
rc=0
for p in $(python3 -c "import json;print(' '.join(c['property_id'] for c in json.load(open('MANIFEST.json'))['checks']))"); do
  rm -f evidence/$p.json
  s=$(date +%s)
  ./check $p --tier quick > out.$p.txt 2> err.$p.txt; e=$?
  t=$(( $(date +%s) - s ))
  v=$(grep -c '^VIOLATION' out.$p.txt || true)
  k=$(grep -c '^KNOWN-FINDING' out.$p.txt || true)
  python3-vt -c "import json,jsonschema;jsonschema.validate(json.load(open('evidence/$p.json')),json.load(open('/root/.vp/EVIDENCE.schema.json')))" 2>/dev/null && ev=valid || ev=INVALID
  echo "$p exit=$e violations=$v known=$k evidence=$ev ${t}s"
  [ "$e" = 0 ] && [ "$ev" = valid ] || rc=1
done
python3-vt -c "import json,jsonschema;jsonschema.validate(json.load(open('MANIFEST.json')),json.load(open('/root/.vp/MANIFEST.schema.json')));print('manifest valid')"
cd /; rm -rf "$D"
exit $rc
