#!/bin/bash
# benign_check.sh [patch ...] - the round of harmless changes: apply each behaviour-preserving patch of /verif/benign to /repo, run the 14 quick checks, undo it.
# Every check must exit 0 (exit 2 = "cannot follow this code" is reported but is not an alarm); a VIOLATION line is a false alarm.
# Needs a clean /repo working tree; leaves it clean.  ~3 min per patch on 16 cores.
cd "$(dirname "$0")/.."
V=$(pwd)
[ -z "$(git -C /repo status --porcelain -- src)" ] || { echo "/repo has local changes under src: not touching it"; exit 2; }
PATCHES=("$@"); [ ${#PATCHES[@]} -gt 0 ] || PATCHES=($V/benign/*/patch_*.diff)
bad=0
for P in "${PATCHES[@]}"; do
  L=$(basename $(dirname $P))$(basename $P .diff | sed 's/patch_//')
  git -C /repo apply --check $P 2>/dev/null || { echo "$L: does not apply any more"; continue; }
  git -C /repo apply $P
  EV=$(mktemp -d -p $V/.cache xv-ev-XXXXXX); OUT=$(mktemp -d -p $V/.cache xv-ben-XXXXXX)
  XV_EVIDENCE_DIR=$EV ./check C06 --no-selftest > $OUT/C06.log 2>&1; echo "C06 rc=$?" > $OUT/rc
  printf "%s\n" C01 C02 C03 C04 C07 C08 C09 C10 C11 C12 C13 C16 C19 | XV_EVIDENCE_DIR=$EV xargs -P 5 -I{} sh -c "./check {} --no-selftest > $OUT/{}.log 2>&1; echo \"{} rc=\$?\" >> $OUT/rc"
  git -C /repo checkout -- src
  r=$(grep -v "rc=0" $OUT/rc | tr '\n' ' ')
  echo "$L: ${r:-14 x exit 0}"
  grep -h -A1 "^VIOLATION" $OUT/*.log | cut -c1-400
  grep -q "rc=1" $OUT/rc && bad=1
  rm -rf $EV $OUT
done
exit $bad
