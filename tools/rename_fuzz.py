#!/usr/bin/env python3
"""rename_fuzz.py [--files N] [--props C01,C02,...] — a false-alarm hunt that needs no sub-agent.

Renaming the local variables and parameters of a function never changes behaviour.  This tool renames every local / parameter (name -> name_q) in every function the rule
modules anchor by name (facts.asts('...') / one('...') in xv/rules), checks that each touched translation unit still parses (clang -fsyntax-only with the build's flags), puts
the result into an overlay directory (nothing in /repo is modified) and runs the quick checks against it.  Every check must exit 0 (or 2: a rule that says it cannot follow
the renamed code is not an alarm); a VIOLATION line is a false alarm of the rule that printed it.
Output: one line per property, plus the violations."""
import os, re, sys, json, subprocess, shutil, tempfile, argparse
V = os.path.dirname(os.path.dirname(os.path.abspath(__file__)))
sys.path.insert(0, V)
from xv.facts import Facts, NS
from xv.build import compile_db
from xv.mast import walk


def anchors():
    names = set()
    for f in os.listdir(os.path.join(V, 'xv', 'rules')):
        if f.endswith('.py'):
            src = open(os.path.join(V, 'xv', 'rules', f)).read()
            for m in re.finditer(r"(?:asts|asts_t|one|fn)\(\s*'([A-Za-z_][\w:~<>]*::[\w~]+|[a-z]\w+)'", src):
                names.add(m.group(1))
            for m in re.finditer(r"'((?:[A-Z]\w+::)+[\w~]+)'", src):
                names.add(m.group(1))
    return names


def body_range(text, line):
    """(start, end) offsets of the function body braces, searching from the start of `line` (1-based)"""
    pos = 0
    for _ in range(line - 1):
        pos = text.index('\n', pos) + 1
    i = pos
    depth = 0
    n = len(text)
    seen_paren = False
    while i < n:
        c = text[i]
        if text.startswith('//', i):
            i = text.index('\n', i); continue
        if text.startswith('/*', i):
            i = text.index('*/', i) + 2; continue
        if c in '"\'':
            j = i + 1
            while text[j] != c:
                j += 2 if text[j] == '\\' else 1
            i = j + 1; continue
        if c == '(':
            depth += 1; seen_paren = True
        elif c == ')':
            depth -= 1
        elif c == ';' and depth == 0 and seen_paren:
            return None             # a declaration, not a definition
        elif c == '{' and depth == 0 and seen_paren:
            break
        i += 1
    else:
        return None
    start = i
    d = 0
    while i < n:
        c = text[i]
        if text.startswith('//', i):
            i = text.index('\n', i); continue
        if text.startswith('/*', i):
            i = text.index('*/', i) + 2; continue
        if c in '"\'':
            j = i + 1
            while text[j] != c:
                j += 2 if text[j] == '\\' else 1
            i = j + 1; continue
        if c == '{':
            d += 1
        elif c == '}':
            d -= 1
            if d == 0:
                return pos, start, i + 1
        i += 1
    return None


def main():
    ap = argparse.ArgumentParser()
    ap.add_argument('--props', default='')
    ap.add_argument('--keep', action='store_true')
    ap.add_argument('--only', default='', help='regex on file names to restrict the renaming to')
    ap.add_argument('--all', action='store_true', help='every function with a body in the .cpp files of the library, not only the functions the rules name')
    ap.add_argument('--mode', default='rename', choices=('rename', 'cond'),
                    help="rename: locals and parameters get a suffix; cond: equivalent spellings of conditions ('x == true' -> 'x', '0 == p' -> 'p == 0', '0 != p' -> 'p != 0') in every .cpp file of the library")
    a = ap.parse_args()
    facts = Facts('lib', None)
    db = compile_db()
    byfile = {}
    def candidates():
        if a.all:
            for usr in facts.astidx:
                ast = facts.ast(usr)
                if ast is not None and ast['file'].endswith('.cpp'):
                    yield ast
        else:
            for name in sorted(anchors()):
                for ast in facts.asts(name, must=False) or []:
                    yield ast
    for _ in (0,):
        for ast in candidates():
            if ast is None or ast.get('body') is None or not ast['file'].startswith('/repo/src/'):
                continue
            if a.only and not re.search(a.only, ast['file']):
                continue
            names = {p.get('n') for p in ast['params'] if p.get('n')}
            for x in walk(ast['body']):
                if x.get('k') == 'Decl':
                    for v in x.get('vars', []):
                        if v.get('n'):
                            names.add(v['n'])
            names = {n for n in names if re.match(r'^[A-Za-z_]\w*$', n) and not n.startswith('m_') and n not in ('this',)}
            if names:
                byfile.setdefault(ast['file'], {})[ast['line']] = (ast.get('fq') or ast.get('name'), names)
    od = tempfile.mkdtemp(prefix='xv-rename-', dir=os.path.join(V, '.cache'))
    nfun = nfiles = 0
    skipped = []
    written = []
    if a.mode == 'cond':
        byfile = {}
        import glob as _glob
        for f in sorted(_glob.glob('/repo/src/xalanc/**/*.cpp', recursive=True)):
            if f not in db or (a.only and not re.search(a.only, f)):
                continue
            text = open(f, encoding='utf-8', errors='surrogateescape').read()
            new = re.sub(r'\s*==\s*true\b', '', text)
            new = re.sub(r'\btrue\s*==\s*', '', new)
            # 'operand == false' -> '!operand' for simple operands (names, member paths, one call) that start right after '(', '&& ', '|| ' or 'return '
            new = re.sub(r'(?<=[(])((?:[A-Za-z_]\w*(?:::|\.|->))*[A-Za-z_]\w*(?:\([^()]*\))?) == false\b', r'!\1', new)
            new = re.sub(r'((?:&&|\|\||return) )((?:[A-Za-z_]\w*(?:::|\.|->))*[A-Za-z_]\w*(?:\([^()]*\))?) == false\b', r'\1!\2', new)
            new = re.sub(r'\b0 == ((?:[A-Za-z_]\w*)(?:(?:\.|->)[A-Za-z_]\w*)*)(?=\s*[)&|;])', r'\1 == 0', new)
            new = re.sub(r'\b0 != ((?:[A-Za-z_]\w*)(?:(?:\.|->)[A-Za-z_]\w*)*)(?=\s*[)&|;])', r'\1 != 0', new)
            if new != text:
                rel = os.path.relpath(f, '/repo')
                dst = os.path.join(od, rel)
                os.makedirs(os.path.dirname(dst), exist_ok=True)
                open(dst, 'w', encoding='utf-8', errors='surrogateescape').write(new)
                written.append((f, dst, rel, len(re.findall(r'==\s*true\b|\btrue\s*==|\b0 [!=]= [A-Za-z_]|== false\b', text))))
    for f, funs in sorted(byfile.items()):
        text = open(f, encoding='utf-8', errors='surrogateescape').read()
        orig = text
        done = []
        for line in sorted(funs, reverse=True):         # bottom up: offsets above stay valid
            fq, names = funs[line]
            rng = body_range(text, line)
            if rng is None:
                skipped.append((fq, 'no body found from line %d' % line)); continue
            sig0, b0, b1 = rng
            region = text[sig0:b1]
            for nm in sorted(names, key=len, reverse=True):
                region = re.sub(r'(?<![\w.>:])(?<!->)%s\b(?!\s*::)' % re.escape(nm), nm + '_q', region)
            cand = text[:sig0] + region + text[b1:]
            done.append((fq, cand))
            text = cand
        if text == orig:
            continue
        rel = os.path.relpath(f, '/repo')
        dst = os.path.join(od, rel)
        os.makedirs(os.path.dirname(dst), exist_ok=True)
        open(dst, 'w', encoding='utf-8', errors='surrogateescape').write(text)
        written.append((f, dst, rel, len(done)))
    # does each renamed file still parse?  (headers: through a unit of the same directory); in parallel
    from concurrent.futures import ThreadPoolExecutor

    def parses(item):
        f, dst, rel, nd = item
        unit = f if f in db else None
        if unit is None:
            base = os.path.splitext(f)[0] + '.cpp'
            unit = base if base in db else next((u for u in sorted(db) if os.path.dirname(u) == os.path.dirname(f)), None)
        if unit is None:
            return item, True, ''
        cmd = [c for c in db[unit]['command'].split() if c != '-c']
        if '-o' in cmd:
            k = cmd.index('-o'); del cmd[k:k + 2]
        vfs = dst + '.vfs.yaml'
        json.dump({'version': 0, 'case-sensitive': 'true', 'roots': [{'type': 'file', 'name': f, 'external-contents': dst}]}, open(vfs, 'w'))
        p = subprocess.run(['clang++'] + cmd[1:] + ['-fsyntax-only', '-w', '-ivfsoverlay', vfs], capture_output=True, text=True, cwd=db[unit]['directory'])
        os.remove(vfs)
        return item, p.returncode == 0, (p.stderr.strip().splitlines() or ['?'])[0][:160]
    with ThreadPoolExecutor(max_workers=12) as ex:
        for (f, dst, rel, nd), ok, err in ex.map(parses, written):
            if ok:
                nfiles += 1; nfun += nd
            else:
                os.remove(dst)
                skipped.append((rel, 'renamed file does not parse: ' + err))
    print(('renamed the locals of %d functions in %d files; %d skipped' if a.mode == 'rename' else 'respelled %d conditions in %d files; %d skipped') % (nfun, nfiles, len(skipped)))
    for s in skipped[:40]:
        print('  skipped', s)
    props = [p for p in a.props.split(',') if p] or json.load(open(os.path.join(V, 'MANIFEST.json'))).get('claimed') or []
    if not props:
        props = ['C01', 'C02', 'C03', 'C04', 'C06', 'C07', 'C08', 'C09', 'C10', 'C11', 'C12', 'C13', 'C16', 'C19']
    ev = tempfile.mkdtemp(prefix='xv-ev-', dir=os.path.join(V, '.cache'))
    env = dict(os.environ, XV_EVIDENCE_DIR=ev)
    bad = 0
    for p in props:
        r = subprocess.run([os.path.join(V, 'check'), p, '--tier', 'quick', '--overlay', od, '--no-selftest'], capture_output=True, text=True, env=env, cwd=V)
        lines = [l for l in r.stdout.splitlines() if l.startswith(('VIOLATION', '  ' + p, 'ANALYSIS-BROKEN'))]
        print('%s rc=%d' % (p, r.returncode))
        for l in lines:
            print('   ', l[:400])
        if r.returncode == 1:
            bad += 1
    shutil.rmtree(ev, ignore_errors=True)
    if not a.keep:
        shutil.rmtree(od, ignore_errors=True)
    else:
        print('overlay kept in', od)
    return 1 if bad else 0


if __name__ == '__main__':
    sys.exit(main())
