#!/usr/bin/env python3
"""mkmutant2.py < spec.json : multi-file mutant.  spec = {"property","name","rule","site","desc","edits":[{"file","old","new","nth"(optional)}]}"""
import sys, os, json, difflib
spec = json.load(sys.stdin)
out = ''
for e in spec['edits']:
    rel = e['file']; src = open('/repo/' + rel).read(); nth = e.get('nth', 0)
    if nth == 0 and src.count(e['old']) != 1:
        sys.exit('OLD occurs %d times in %s' % (src.count(e['old']), rel))
    pos = -1
    for _ in range(max(nth, 1)):
        pos = src.index(e['old'], pos + 1)
    dst = src[:pos] + e['new'] + src[pos + len(e['old']):]
    out += ''.join(difflib.unified_diff(src.splitlines(True), dst.splitlines(True), 'a/' + rel, 'b/' + rel, n=3))
d = os.path.join(os.path.dirname(os.path.dirname(os.path.abspath(__file__))), 'selftest', spec['property'])
os.makedirs(d, exist_ok=True)
open(os.path.join(d, spec['name'] + '.diff'), 'w').write(out)
json.dump({'property': spec['property'], 'expect_rule': spec['rule'], 'expect_site': spec['site'], 'description': spec['desc']}, open(os.path.join(d, spec['name'] + '.json'), 'w'), indent=1)
print('wrote', spec['name'])
