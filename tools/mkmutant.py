#!/usr/bin/env python3
"""mkmutant.py <property> <name> <expect_rule> <expect_site_substring> <repo-relative file> <description>
reads OLD text and NEW text from stdin separated by a line '=====' ; writes selftest/<prop>/<name>.diff/.json.
The patch is computed against the current /repo file; /repo is not modified."""
import sys, os, difflib, json
prop, name, rule, site, rel, desc = sys.argv[1:7]
old, new = sys.stdin.read().split('\n=====\n')
nth = 0
if '@' in rel:
    rel, nth = rel.split('@'); nth = int(nth)
src = open('/repo/' + rel).read()
if nth == 0 and src.count(old) != 1:
    sys.exit('OLD text occurs %d times in %s (use file@N to pick the N-th)' % (src.count(old), rel))
if nth and src.count(old) < nth:
    sys.exit('OLD text occurs only %d times' % src.count(old))
repl = new.rstrip('\n') if not old.endswith('\n') else new
if nth:
    pos = -1
    for _ in range(nth):
        pos = src.index(old, pos + 1)
    dst = src[:pos] + repl + src[pos + len(old):]
else:
    dst = src.replace(old, repl)
d = ''.join(difflib.unified_diff(src.splitlines(True), dst.splitlines(True), 'a/' + rel, 'b/' + rel, n=3))
outd = os.path.join(os.path.dirname(os.path.dirname(os.path.abspath(__file__))), 'selftest', prop)
os.makedirs(outd, exist_ok=True)
open(os.path.join(outd, name + '.diff'), 'w').write(d)
json.dump({'property': prop, 'expect_rule': rule, 'expect_site': site, 'description': desc}, open(os.path.join(outd, name + '.json'), 'w'), indent=1)
print('wrote', name)
