#!/usr/bin/env python3
"""regenerates MANIFEST.json from the rule modules that exist (xv/rules/cNN.py) and the tables below"""
import json, os
V = os.path.dirname(os.path.dirname(os.path.abspath(__file__)))
props = [json.loads(l) for l in open(os.path.join(V, 'properties.jsonl'))]
NA = {
 'C05': 'equality of outputs across source-tree kinds and sinks quantifies over run-time values; the one structural fact (all overloads funnel into doTransform) is not a necessary condition of the property',
 'C14': 'namespace fix-up is a decision tree over run-time prefix/URI bindings; no clause survives without the values',
 'C15': 'set equality of key() results with a declarative definition per document is behavioural; its reset between transformations is an instance of C06-R1',
 'C17': 'xsl:number counts over run-time trees and a cache whose correctness is an invariant of visit histories; no necessary structural clause beyond the reset covered by C06-R1',
 'C18': 'IEEE round-trip over 2^64 doubles; the only structural clause (conversion buffer bound) is decided as C03-R3',
 'C20': 'observational equivalence of containers with standard models over operation histories; a field co-update lint would be a brittle proxy',
}
TECH = {
 'C01': 'static analysis: constant-table lint (sortedness under the search comparator, XSLT 1.0 vocabulary), producer/consumer switch exhaustiveness, finite-domain interpretation of the xsl:element namespace fix-up and of literal-result namespace processing; frozen protocol table of the dynamic context each instruction establishes (who-may-call on the scope stacks, CFG must-pass-through); parameter-binding rule; interpretation of the attribute-value-template constructor on all short strings and of the variables stack on instruction-shaped scripts (scoping laws)',
 'C02': 'static analysis: keyword-table lint, op-code producer-subset-of-consumer over the call graph, finite-domain interpretation of the comparison dispatch and of the IEEE arithmetic primitives, grammar-recursion rule, position-cache coherence over the CFG; interpretation of substring(), of the node-set comparison kernels and of the string functions together with the DOMStringHelper routines they call, on all small inputs; interpretation of the tokenizer on all short strings and of the recursive-descent expression parser on bounded token sequences, against a reference XPath 1.0 lexer and recognizer; interpretation of the string-to-number validation on all short strings and of the twelve axis functions on all context nodes of small abstract trees; end-to-end interpretation of location paths (compile to a real op-code map, XPath::step, literal position predicates) and of whole expressions (operators, op-coded functions, expression predicates, filter expressions through XPath::executeMore and XPath::predicates) against a reference evaluator',
 'C03': 'static analysis: interprocedural exception-escape fixpoint, sibling handler agreement, format-string buffer bounds, guarded float-to-int casts and integer divisions, CFG must-pass-through rules; emptied-by-reset rule for members holding handles into the per-transformation object factory',
 'C04': 'static analysis: constant-table lint + finite-domain interpretation of predicate ASTs, of the escape functions and of the CDATA sectioning code, CFG guard accounting for buffer stores, template-instantiation consistency; interpretation of the output stream (buffer, flush, transcoding retry loop) against a model transcoder on all bounded write sequences; interpretation of the UTF-16 byte-order choice for both byte orders; interpretation of the comment / processing-instruction content fix-ups on all short strings',
 'C06': 'static analysis: write-set (effect) analysis over the CHA call graph versus the reset closure; CFG dominance of the reset guard',
 'C07': 'static analysis: effect analysis (writes to static storage and to shared classes) over the CHA call graph with cut sets',
 'C08': 'static analysis: template-argument comparison of serializer instantiations, who-may-call, HTML element table lint, bounded interpretation of the indenting serializer\'s event handlers over all event sequences (abstract output tokens), of the HTML serializer likewise, and of the text formatter on all short strings',
 'C09': 'static analysis: pattern op-code producers versus stepPattern/getTargetData switch labels; single NodeTester rule; CFG loop-exit rule for the ancestor search; type-split rule for number-valued predicates on both sides; step-type value sets reaching the node tester; kind guards of pattern steps; interpretation of the pattern parser on bounded token sequences against a reference recognizer for the XSLT 1.0 pattern grammar; end-to-end interpretation of pattern compilation (real op-code map) and matching (stepPattern, NodeTester) on abstract trees against the definition of XSLT 1.0 5.2',
 'C10': 'static analysis: exhaustive switch evaluation of match-score constants; finite-domain interpretation of getTargetData and of the lookup-list builders on all small inputs; structural agreement of the two findTemplate branches; interpretation of the construction of the built-in rules over an object model of stylesheet elements',
 'C11': 'static analysis: sibling dispatch agreement across the six executeMore switches (labels, kernels, canonical conversions); append protocol of the string-result overloads; wrapper rule for the typed helper families; body equality modulo the sink for the 50 string / character-events overload pairs of the conversion library; interpretation of the generic and the four typed executeMore overloads on a corpus of compiled expressions, typed answers compared with the conversions of the generic result',
 'C12': 'static analysis: CFG must-pass-through of the order flag in axis functions; who-may-call for raw addNode; dominating-justification rule for whole-range transfers in the ordered merge; interpretation of the ordered insert (binary and linear search, predicates) on all bounded insertion sequences over two documents, and of the structural document-order comparison on all node pairs of small trees',
 'C13': 'static analysis: who-may-call for strip-unaware text access; CFG guard dominance of text sinks; interpretation of the declaration ordering; return-value provenance of the strip decision chain; pattern step verdicts only from NodeTester',
 'C16': 'static analysis: stable_sort call rule + finite-domain interpretation of the key comparator of the per-(key, node) value caches and of a whole sort end to end (scratch vector, comparator object, copy back) against the XSLT 1.0 ordering; scope and re-entrancy rules for the sorter',
 'C19': 'static analysis: destructor-reachable allocation over the call graph, placement-new pairing, manager agreement, new/delete confinement, ownership analysis of pointer containers (removal and keyed-store sites), construct-to-owner path rule for XalanConstruct',
}
import re
claimed = sorted(p[:-3].upper() for p in os.listdir(os.path.join(V, 'xv', 'rules')) if re.match(r'^c\d\d\.py$', p))
m = {'version': 1, 'setup_cmd': 'make -C /verif all',
     'hooks': {'guard': 'APACHE_XALAN_C_VERIF', 'enable': "none needed: the checks parse /repo with the build's own flags (compile DB from /repo/_build/build.ninja); nothing is instrumented",
               'baseline_off_cmd': 'ctest --test-dir /repo/_build -j8 --timeout 900', 'source_commits': [], 'add_only': True},
     'engines': [{'name': 'xvfacts', 'path': 'tools/xvfacts.cc', 'serves_properties': claimed, 'kind_free_text': 'libTooling fact extractor: functions, CHA call edges, writes, throws, constant tables, mini-ASTs with resolved callees'},
                 {'name': 'xv', 'path': 'xv/', 'serves_properties': claimed, 'kind_free_text': 'Python rule engines over the extracted facts (table lint, finite-domain and object-level interpretation of function bodies, CFG must-analyses, call-graph effects)'}],
     'checks': [], 'notes': 'Static analysis only: every check parses the current /repo working tree (clang 14 libTooling) and decides structural clauses that are necessary conditions of the property; see DESIGN.md. Exit 2 = analysis broken (anchor vanished / instance floor not met), never a pass.',
     'not_applicable': []}
for p in props:
    i = p['id']
    if i in claimed:
        m['checks'].append({'property_id': i, 'quick_cmd': './check %s --tier quick' % i, 'thorough_cmd': './check %s --tier thorough' % i, 'evidence_file': '/verif/evidence/%s.json' % i,
                            'replay_cmd_template': 'cat {path}', 'engine': 'xv',
                            'level_claimed': {'category': 'other', 'text': 'static decision of structural clauses (each a necessary condition of the property) on every path of the current source; a pass means those clauses hold, not that the behavioural property holds', 'design_ref': 'DESIGN.md §3 ' + i},
                            'level_note': 'trusted: clang 14 front end, xvfacts extractor, CHA call graph incl. synthetic callback edges, frozen specification tables in the rule modules; code outside the built configuration is not analysed',
                            'technique': TECH.get(i, 'static analysis')})
    else:
        m['not_applicable'].append({'property_id': i, 'reason': NA.get(i, 'static check planned (DESIGN.md §3) but not built yet')})
json.dump(m, open(os.path.join(V, 'MANIFEST.json'), 'w'), indent=1)
print('claimed', claimed)
