// xvfacts: per-translation-unit fact extractor for the xalan-c static checks.
//
// For every function instance (including template instantiations and implicit
// members) whose definition lies under the repository root it emits
//   facts  (<out>/<unit>.facts.jsonl): functions, classes, call edges, field /
//          global writes, throw sites with enclosing handlers, switches,
//          new/delete, const-removing casts, static locals, constant tables
//   mini-ASTs (<out>/<unit>.ast.jsonl): one JSON object per function body with
//          resolved callees, declared entities and folded integer constants.
// A function body / table is dumped by exactly one process: the first one that
// creates the marker file <out>/marks/<hash(usr)>.
//
// Nothing of the analysed program is executed.
#include "clang/AST/ASTConsumer.h"
#include "clang/AST/RecursiveASTVisitor.h"
#include "clang/AST/ParentMapContext.h"
#include "clang/AST/ExprCXX.h"
#include "clang/AST/StmtCXX.h"
#include "clang/Frontend/FrontendActions.h"
#include "clang/Frontend/CompilerInstance.h"
#include "clang/Index/USRGeneration.h"
#include "clang/Tooling/CommonOptionsParser.h"
#include "clang/Tooling/Tooling.h"
#include "llvm/Support/JSON.h"
#include "llvm/Support/MD5.h"
#include <fcntl.h>
#include <unistd.h>
#include <set>
#include <map>
using namespace clang;
using namespace clang::tooling;
namespace json = llvm::json;

static llvm::cl::OptionCategory Cat("xvfacts");
static llvm::cl::opt<std::string> OutDir("o", llvm::cl::desc("output directory"), llvm::cl::cat(Cat));
static llvm::cl::list<std::string> Maps("map", llvm::cl::desc("real=replacement: analyse <replacement>'s content in place of file <real>"), llvm::cl::cat(Cat));
static llvm::cl::opt<std::string> Root("root", llvm::cl::desc("repository root prefix"), llvm::cl::init("/repo/"), llvm::cl::cat(Cat));

static std::string usrOf(const Decl *D) {
  llvm::SmallString<128> B;
  if (index::generateUSRForDecl(D, B)) return "";
  return std::string(B.str());
}
static const FunctionDecl *tpattern(const FunctionDecl *F) {
  if (auto *P = F->getTemplateInstantiationPattern()) return P;
  return F;
}
static bool claim(const std::string &kind, const std::string &key) {
  llvm::MD5 H; H.update(kind); H.update(key);
  llvm::MD5::MD5Result R; H.final(R);
  llvm::SmallString<32> S; llvm::MD5::stringifyResult(R, S);
  std::string p = OutDir + "/marks/" + S.str().str();
  int fd = open(p.c_str(), O_CREAT | O_EXCL | O_WRONLY, 0644);
  if (fd < 0) return false;
  close(fd);
  return true;
}

struct V : RecursiveASTVisitor<V> {
  ASTContext &C; SourceManager &SM; llvm::raw_ostream &OS; llvm::raw_ostream &AS;
  PrintingPolicy PP;
  const FunctionDecl *cur = nullptr; int tryAll = 0;
  std::vector<std::vector<std::string>> hstack;
  std::map<const Decl *, int> localIds; int nextLocal = 0;
  V(ASTContext &c, llvm::raw_ostream &os, llvm::raw_ostream &as)
      : C(c), SM(c.getSourceManager()), OS(os), AS(as), PP(c.getPrintingPolicy()) {
    PP.SuppressTagKeyword = true; PP.Bool = true;
  }
  bool shouldVisitTemplateInstantiations() const { return true; }
  bool shouldVisitImplicitCode() const { return true; }

  std::string file(SourceLocation L) { L = SM.getExpansionLoc(L); auto P = SM.getPresumedLoc(L); if (P.isInvalid()) return "?"; return P.getFilename(); }
  unsigned line(SourceLocation L) { L = SM.getExpansionLoc(L); auto P = SM.getPresumedLoc(L); if (P.isInvalid()) return 0; return P.getLine(); }
  std::string loc(SourceLocation L) { return file(L) + ":" + std::to_string(line(L)); }
  bool inRepo(SourceLocation L) { return llvm::StringRef(file(L)).startswith(Root); }
  void emit(json::Object o) { OS << json::Value(std::move(o)) << "\n"; }
  std::string fkey(const FunctionDecl *F) { return usrOf(F); }
  std::string ty(QualType T) { if (T.isNull()) return "?"; return T.getCanonicalType().getAsString(PP); }
  std::string clsName(const CXXRecordDecl *R) {
    std::string n = R->getQualifiedNameAsString();
    if (auto *S = dyn_cast<ClassTemplateSpecializationDecl>(R)) { n.clear(); llvm::raw_string_ostream ss(n); S->getNameForDiagnostic(ss, PP, true); }
    return n;
  }
  std::string fqName(const FunctionDecl *F) {
    // qualified name with the class written with its template arguments
    if (auto *M = dyn_cast<CXXMethodDecl>(F)) return clsName(M->getParent()) + "::" + M->getNameAsString();
    return F->getQualifiedNameAsString();
  }
  json::Array handlerStack() {
    json::Array hh;
    for (auto it = hstack.rbegin(); it != hstack.rend(); ++it) { json::Array h; for (auto &x : *it) h.push_back(x); hh.push_back(std::move(h)); }
    return hh;
  }

  // ------------------------------------------------------------------ functions
  void declFunc(const FunctionDecl *F) {
    std::string k = usrOf(F); if (k.empty()) return;
    json::Object o; o["t"] = "F"; o["id"] = k; o["name"] = F->getQualifiedNameAsString(); o["fq"] = fqName(F);
    o["loc"] = loc(F->getLocation()); o["def"] = F->doesThisDeclarationHaveABody();
    o["repo"] = inRepo(tpattern(F)->getLocation()); o["pat"] = usrOf(tpattern(F));
    o["implicitFn"] = F->isImplicit();
    { json::Array ps; for (auto *P : F->parameters()) ps.push_back(ty(P->getType())); o["params"] = std::move(ps); }
    o["ret"] = ty(F->getReturnType());
    if (auto *M = dyn_cast<CXXMethodDecl>(F)) {
      o["cls"] = clsName(M->getParent()); o["clsq"] = M->getParent()->getQualifiedNameAsString();
      o["const"] = M->isConst(); o["static"] = M->isStatic(); o["virtual"] = M->isVirtual();
      o["access"] = M->getAccess() == AS_public ? "public" : M->getAccess() == AS_protected ? "protected" : "private";
      o["kind"] = isa<CXXConstructorDecl>(M) ? "ctor" : isa<CXXDestructorDecl>(M) ? "dtor" : "method";
      // every method this one overrides, through intermediate declarations that have no body of their own (pure virtuals re-declared in a
      // middle class): the call graph resolves a virtual call on the top-level base to all of these
      json::Array ov; { std::vector<const CXXMethodDecl*> work(M->overridden_methods().begin(), M->overridden_methods().end()); std::set<std::string> seenOv;
        while (!work.empty()) { const CXXMethodDecl *O = work.back(); work.pop_back(); std::string u = usrOf(O); if (!seenOv.insert(u).second) continue; ov.push_back(u);
          for (auto *P : O->overridden_methods()) work.push_back(P); } }
      o["ov"] = std::move(ov);
      if (auto *D = dyn_cast<CXXDestructorDecl>(F)) {
        json::Array im; const CXXRecordDecl *R = D->getParent();
        if (R->isCompleteDefinition()) {
          for (auto *Fld : R->fields()) { QualType T = Fld->getType(); if (auto *AT = C.getAsArrayType(T)) T = C.getBaseElementType(AT); if (auto *RD = T->getAsCXXRecordDecl()) if (RD->hasDefinition()) if (auto *DD = RD->getDestructor()) im.push_back(usrOf(DD)); }
          for (auto &B : R->bases()) { if (auto *RD = B.getType()->getAsCXXRecordDecl()) if (RD->hasDefinition()) if (auto *DD = RD->getDestructor()) im.push_back(usrOf(DD)); }
        }
        o["implicit"] = std::move(im);
      }
    } else o["kind"] = "func";
    o["externC"] = F->isExternC();
    emit(std::move(o));
  }
  bool TraverseFunctionDecl(FunctionDecl *F) { return trav(F, [&] { return RecursiveASTVisitor<V>::TraverseFunctionDecl(F); }); }
  bool TraverseCXXMethodDecl(CXXMethodDecl *F) { return trav(F, [&] { return RecursiveASTVisitor<V>::TraverseCXXMethodDecl(F); }); }
  bool TraverseCXXConstructorDecl(CXXConstructorDecl *F) { return trav(F, [&] { return RecursiveASTVisitor<V>::TraverseCXXConstructorDecl(F); }); }
  bool TraverseCXXDestructorDecl(CXXDestructorDecl *F) { return trav(F, [&] { return RecursiveASTVisitor<V>::TraverseCXXDestructorDecl(F); }); }
  bool TraverseCXXConversionDecl(CXXConversionDecl *F) { return trav(F, [&] { return RecursiveASTVisitor<V>::TraverseCXXConversionDecl(F); }); }
  template <class Fn> bool trav(FunctionDecl *F, Fn fn) {
    if (F->isDependentContext()) return true;  // uninstantiated pattern: not in the program
    if (!inRepo(tpattern(F)->getLocation())) return true;
    const FunctionDecl *s = cur; int st = tryAll; cur = F; tryAll = 0; auto hs = hstack; hstack.clear();
    bool hasBody = F->doesThisDeclarationHaveABody() && F->getBody();
    bool mine = claim(hasBody ? "FN" : "FD", usrOf(F));
    bool r = true;
    if (mine) {
      if (hasBody || F->isImplicit()) declFunc(F);
      if (hasBody) dumpFunction(F);
      r = fn();
    }
    cur = s; tryAll = st; hstack = hs; return r;
  }

  struct RethrowFinder : RecursiveASTVisitor<RethrowFinder> {
    bool found = false;
    bool VisitCXXThrowExpr(CXXThrowExpr *E) { if (!E->getSubExpr()) found = true; return true; }
    bool TraverseCXXCatchStmt(CXXCatchStmt *) { return true; }
    bool TraverseLambdaExpr(LambdaExpr *) { return true; }
  };
  bool TraverseCXXTryStmt(CXXTryStmt *S) {
    bool all = false; for (unsigned i = 0; i < S->getNumHandlers(); ++i) if (!S->getHandler(i)->getExceptionDecl()) all = true;
    std::vector<std::string> hs;
    for (unsigned i = 0; i < S->getNumHandlers(); ++i) {
      auto *H = S->getHandler(i); RethrowFinder rf; rf.TraverseStmt(H->getHandlerBlock());
      std::string t = H->getExceptionDecl() ? ty(H->getCaughtType().getNonReferenceType().getUnqualifiedType()) : "...";
      if (rf.found) t = "~" + t; hs.push_back(t);
    }
    hstack.push_back(hs);
    if (all) tryAll++; TraverseStmt(S->getTryBlock()); if (all) tryAll--;
    hstack.pop_back();
    for (unsigned i = 0; i < S->getNumHandlers(); ++i) TraverseStmt(S->getHandler(i));
    return true;
  }

  void call(const FunctionDecl *Callee, bool virt, SourceLocation L, const char *how, const Expr *recv = nullptr) {
    if (!cur || !Callee) return; std::string k = fkey(Callee); if (k.empty()) return;
    json::Object o; o["t"] = "C"; o["from"] = fkey(cur); o["to"] = k; o["toName"] = Callee->getQualifiedNameAsString();
    o["virt"] = virt; o["loc"] = loc(L); o["how"] = how; o["tryAll"] = tryAll > 0; o["h"] = handlerStack();
    if (recv) {
      const Expr *E = recv->IgnoreParenImpCasts();
      if (isa<CXXThisExpr>(E)) o["recv"] = "this";
      else if (auto *ME = dyn_cast<MemberExpr>(E)) { if (isa<CXXThisExpr>(ME->getBase()->IgnoreParenImpCasts())) o["recv"] = std::string("this.") + ME->getMemberDecl()->getNameAsString(); }
      else if (auto *DR = dyn_cast<DeclRefExpr>(E)) { if (auto *VD = dyn_cast<VarDecl>(DR->getDecl())) if (VD->hasGlobalStorage()) o["recv"] = std::string("global.") + VD->getQualifiedNameAsString(); }
    }
    emit(std::move(o));
  }

  bool VisitCallExpr(CallExpr *E) {
    if (!cur) return true;
    if (auto *MC = dyn_cast<CXXMemberCallExpr>(E)) {
      if (auto *M = MC->getMethodDecl()) {
        bool virt = M->isVirtual();
        if (auto *ME = dyn_cast<MemberExpr>(MC->getCallee()->IgnoreParens())) if (ME->hasQualifier()) virt = false;
        call(M, virt, E->getBeginLoc(), "call", MC->getImplicitObjectArgument());
        noteRecvWrite(MC);
      } else {  // call through a pointer to member function
        json::Object o; o["t"] = "MP"; o["from"] = fkey(cur); o["loc"] = loc(E->getBeginLoc()); o["type"] = ty(MC->getCallee()->getType());
        // class and signature of the member pointer
        if (auto *BO = dyn_cast<BinaryOperator>(MC->getCallee()->IgnoreParens())) {
          QualType RT = BO->getRHS()->getType();
          if (auto *MPT = RT->getAs<MemberPointerType>()) { if (auto *RD = MPT->getClass()->getAsCXXRecordDecl()) o["cls"] = clsName(RD); o["sig"] = ty(MPT->getPointeeType()); }
        }
        o["h"] = handlerStack();
        emit(std::move(o));
      }
    } else if (auto *FD = E->getDirectCallee()) {
      call(FD, false, E->getBeginLoc(), "call");
      if (!inRepo(tpattern(FD)->getLocation())) callbackEdges(E);
      if (auto *OC = dyn_cast<CXXOperatorCallExpr>(E)) { if (auto *M = dyn_cast<CXXMethodDecl>(FD)) if (!M->isConst() && !M->isStatic() && OC->getNumArgs() > 0) noteWrite(OC->getArg(0), (std::string("call:operator") + getOperatorSpelling(OC->getOperator())).c_str(), E->getBeginLoc()); }
    } else {
      json::Object o; o["t"] = "IND"; o["from"] = fkey(cur); o["loc"] = loc(E->getBeginLoc()); o["type"] = ty(E->getCallee()->getType()); o["h"] = handlerStack();
      std::string s; llvm::raw_string_ostream ss(s); E->getCallee()->printPretty(ss, nullptr, PP); o["callee"] = ss.str();
      emit(std::move(o));
    }
    if (auto *FD = E->getDirectCallee()) {
      unsigned off = (isa<CXXOperatorCallExpr>(E) && isa<CXXMethodDecl>(FD)) ? 1 : 0;
      for (unsigned i = 0; i + off < E->getNumArgs() && i < FD->getNumParams(); ++i) {
        QualType PT = FD->getParamDecl(i)->getType();
        if (PT->isReferenceType() && !PT->getPointeeType().isConstQualified() && !PT->isRValueReferenceType()) noteWrite(E->getArg(i + off), "refarg", E->getBeginLoc());
      }
    }
    return true;
  }
  // a repo functor object or repo function handed to an external function (std::stable_sort, std::for_each, bsearch ...):
  // the external code may call it; model that as an edge from the caller
  void callbackEdges(CallExpr *E) {
    for (auto *A : E->arguments()) {
      const Expr *X = A->IgnoreParenImpCasts();
      if (auto *M = dyn_cast<MaterializeTemporaryExpr>(X)) X = M->getSubExpr()->IgnoreParenImpCasts();
      if (auto *DR = dyn_cast<DeclRefExpr>(X)) if (auto *FD = dyn_cast<FunctionDecl>(DR->getDecl())) { if (inRepo(tpattern(FD)->getLocation())) call(FD, false, E->getBeginLoc(), "callback"); continue; }
      if (auto *UO = dyn_cast<UnaryOperator>(X)) if (UO->getOpcode() == UO_AddrOf) if (auto *DR = dyn_cast<DeclRefExpr>(UO->getSubExpr()->IgnoreParenImpCasts())) if (auto *FD = dyn_cast<FunctionDecl>(DR->getDecl())) { if (inRepo(tpattern(FD)->getLocation())) call(FD, false, E->getBeginLoc(), "callback"); continue; }
      QualType T = A->getType().getNonReferenceType();
      if (auto *RD = T->getAsCXXRecordDecl()) {
        if (!RD->hasDefinition() || !inRepo(RD->getLocation())) continue;
        for (auto *D : RD->decls()) {
          auto *M = dyn_cast<CXXMethodDecl>(D);
          if (M && M->getOverloadedOperator() == OO_Call) call(M, M->isVirtual(), E->getBeginLoc(), "callback");
        }
      }
    }
  }
  bool VisitCXXConstructExpr(CXXConstructExpr *E) {
    call(E->getConstructor(), false, E->getBeginLoc(), "ctor");
    auto *FD = E->getConstructor();
    for (unsigned i = 0; i < E->getNumArgs() && i < FD->getNumParams(); ++i) {
      QualType PT = FD->getParamDecl(i)->getType();
      if (PT->isReferenceType() && !PT->getPointeeType().isConstQualified() && !PT->isRValueReferenceType()) noteWrite(E->getArg(i), "refarg", E->getBeginLoc());
    }
    return true;
  }
  bool VisitCXXBindTemporaryExpr(CXXBindTemporaryExpr *E) { if (auto *D = E->getTemporary()->getDestructor()) call(D, false, E->getBeginLoc(), "tmpdtor"); return true; }
  bool VisitVarDecl(VarDecl *D) {
    if (cur && D->isLocalVarDecl() && !D->isStaticLocal()) {
      QualType T = D->getType(); if (auto *AT = C.getAsArrayType(T)) T = C.getBaseElementType(AT);
      if (!T->isReferenceType()) if (auto *RD = T->getAsCXXRecordDecl()) if (RD->hasDefinition()) if (auto *DD = RD->getDestructor()) if (!DD->isTrivial()) call(DD, false, D->getLocation(), "localdtor");
    }
    if (cur && D->isStaticLocal()) {
      json::Object o; o["t"] = "SL"; o["from"] = fkey(cur); o["var"] = D->getQualifiedNameAsString(); o["const"] = D->getType().isConstQualified(); o["loc"] = loc(D->getLocation()); o["type"] = ty(D->getType()); emit(std::move(o));
    }
    if (!cur && D->hasGlobalStorage() && D->hasInit() && D->isThisDeclarationADefinition() && inRepo(D->getLocation()) && !D->getType()->isDependentType()) dumpTable(D);
    if (!cur && D->hasGlobalStorage() && D->isThisDeclarationADefinition() && inRepo(D->getLocation()) && !D->getType()->isDependentType()) {
      json::Object o; o["t"] = "GV"; o["var"] = D->getQualifiedNameAsString(); o["type"] = ty(D->getType()); o["const"] = D->getType().isConstQualified(); o["loc"] = loc(D->getLocation()); emit(std::move(o));
    }
    return true;
  }
  bool VisitCXXDeleteExpr(CXXDeleteExpr *E) {
    if (cur) {
      json::Object o; o["t"] = "DEL"; o["from"] = fkey(cur); o["loc"] = loc(E->getBeginLoc()); o["type"] = E->getDestroyedType().isNull() ? "?" : ty(E->getDestroyedType()); emit(std::move(o));
      QualType T = E->getDestroyedType();
      if (!T.isNull()) if (auto *RD = T->getAsCXXRecordDecl()) if (RD->hasDefinition()) if (auto *DD = RD->getDestructor()) call(DD, DD->isVirtual(), E->getBeginLoc(), "delete");
      if (auto *OD = E->getOperatorDelete()) call(OD, false, E->getBeginLoc(), "opdelete");
    }
    return true;
  }
  bool VisitCXXNewExpr(CXXNewExpr *E) {
    if (cur) {
      json::Object o; o["t"] = "NEW"; o["from"] = fkey(cur); o["loc"] = loc(E->getBeginLoc()); o["placement"] = (int)E->getNumPlacementArgs(); o["type"] = ty(E->getAllocatedType());
      if (auto *ON = E->getOperatorNew()) { o["opnew"] = ON->getQualifiedNameAsString(); o["opnewRepo"] = inRepo(ON->getLocation()); }
      emit(std::move(o));
      if (auto *ON = E->getOperatorNew()) call(ON, false, E->getBeginLoc(), "opnew");
    }
    return true;
  }
  bool VisitCXXThrowExpr(CXXThrowExpr *E) {
    if (cur) {
      json::Object o; o["t"] = "T"; o["from"] = fkey(cur); o["loc"] = loc(E->getBeginLoc());
      o["type"] = E->getSubExpr() ? ty(E->getSubExpr()->getType().getUnqualifiedType()) : "<rethrow>"; o["h"] = handlerStack(); emit(std::move(o));
    }
    return true;
  }

  // ------------------------------------------------------------------ writes
  void noteRecvWrite(CXXMemberCallExpr *MC) {
    auto *M = MC->getMethodDecl(); if (!M || M->isConst() || M->isStatic()) return;
    noteWrite(MC->getImplicitObjectArgument(), (std::string("call:") + M->getNameAsString()).c_str(), MC->getBeginLoc(), usrOf(M));
  }
  void noteWrite(const Expr *E, const char *kind, SourceLocation L, std::string callee = "") {
    if (!cur || !E) return; E = E->IgnoreParenImpCasts();
    const Expr *X = E; std::string path;
    for (;;) {
      if (auto *AS = dyn_cast<ArraySubscriptExpr>(X)) { X = AS->getBase()->IgnoreParenImpCasts(); path = "[]" + path; continue; }
      if (auto *UO = dyn_cast<UnaryOperator>(X)) { if (UO->getOpcode() == UO_Deref) { X = UO->getSubExpr()->IgnoreParenImpCasts(); path = "*" + path; continue; } }
      if (auto *OC = dyn_cast<CXXOperatorCallExpr>(X)) { if ((OC->getOperator() == OO_Subscript || OC->getOperator() == OO_Star || OC->getOperator() == OO_Arrow) && OC->getNumArgs() > 0) { X = OC->getArg(0)->IgnoreParenImpCasts(); path = "*" + path; continue; } }
      if (auto *MC = dyn_cast<CXXMemberCallExpr>(X)) {  // accessor result: x.back() = .., x.begin()->f = ..  : attribute to receiver
        if (MC->getMethodDecl() && MC->getImplicitObjectArgument() && (X->isLValue() || X->getType()->isPointerType() || X->getType()->isRecordType())) {
          X = MC->getImplicitObjectArgument()->IgnoreParenImpCasts(); path = "()" + path; continue; }
      }
      if (auto *CE = dyn_cast<ExplicitCastExpr>(X)) { X = CE->getSubExpr()->IgnoreParenImpCasts(); path = "(cast)" + path; continue; }
      break;
    }
    if (auto *ME = dyn_cast<MemberExpr>(X)) {
      if (auto *FD = dyn_cast<FieldDecl>(ME->getMemberDecl())) {
        const Expr *B = ME->getBase()->IgnoreParenImpCasts(); bool viaThis = isa<CXXThisExpr>(B);
        json::Object o; o["t"] = "W"; o["from"] = fkey(cur); o["field"] = FD->getParent()->getQualifiedNameAsString() + "::" + FD->getNameAsString();
        o["kind"] = kind; o["this"] = viaThis; o["deref"] = !path.empty(); o["path"] = path; o["loc"] = loc(L); o["mutable"] = FD->isMutable(); if (!callee.empty()) o["callee"] = callee;
        o["fty"] = ty(FD->getType());
        emit(std::move(o));
        if (!viaThis && !ME->isArrow()) noteWrite(B, kind, L, callee);  // a.b.c = ... also writes a.b
        return;
      }
      if (auto *VD = dyn_cast<VarDecl>(ME->getMemberDecl())) { globalWrite(VD, kind, path, L, callee); return; }
    }
    if (auto *DR = dyn_cast<DeclRefExpr>(X)) if (auto *VD = dyn_cast<VarDecl>(DR->getDecl())) globalWrite(VD, kind, path, L, callee);
  }
  void globalWrite(const VarDecl *VD, const char *kind, const std::string &path, SourceLocation L, const std::string &callee) {
    if (!VD->hasGlobalStorage()) return;
    json::Object o; o["t"] = "G"; o["from"] = fkey(cur); o["var"] = VD->getQualifiedNameAsString(); o["kind"] = kind; o["deref"] = !path.empty(); o["path"] = path; o["loc"] = loc(L);
    o["constvar"] = VD->getType().isConstQualified(); o["local"] = VD->isStaticLocal(); o["vty"] = ty(VD->getType()); o["varRepo"] = inRepo(VD->getLocation()); if (!callee.empty()) o["callee"] = callee;
    emit(std::move(o));
  }
  bool VisitBinaryOperator(BinaryOperator *E) { if (E->isAssignmentOp()) noteWrite(E->getLHS(), "assign", E->getBeginLoc()); return true; }
  bool VisitUnaryOperator(UnaryOperator *E) { if (E->isIncrementDecrementOp()) noteWrite(E->getSubExpr(), "incdec", E->getBeginLoc()); return true; }
  bool VisitCastExpr(CastExpr *E) {
    if (!cur) return true;
    if (auto *EC = dyn_cast<ExplicitCastExpr>(E)) {
      QualType From = EC->getSubExpr()->getType(), To = EC->getTypeAsWritten();
      auto strip = [&](QualType T, bool &c) -> bool { if (T->isPointerType() || T->isReferenceType()) { c = T->getPointeeType().isConstQualified(); return true; } return false; };
      bool fc = false, tc = false; bool fp = strip(From, fc);
      if (!fp && EC->getSubExpr()->isLValue() && To->isReferenceType()) { fc = From.isConstQualified(); fp = true; }
      bool tp = strip(To, tc);
      if (fp && tp && fc && !tc) { json::Object o; o["t"] = "CC"; o["from"] = fkey(cur); o["loc"] = loc(E->getBeginLoc()); o["fromT"] = ty(From); o["toT"] = ty(To); emit(std::move(o)); }
    }
    return true;
  }
  bool VisitCXXRecordDecl(CXXRecordDecl *R) {
    if (!R->isThisDeclarationADefinition() || R->isDependentContext()) return true;
    if (!claim("K", clsName(R))) return true;
    json::Object o; o["t"] = "K"; o["name"] = clsName(R); o["q"] = R->getQualifiedNameAsString(); o["repo"] = inRepo(R->getLocation());
    json::Array b; for (auto &B : R->bases()) if (auto *RD = B.getType()->getAsCXXRecordDecl()) b.push_back(clsName(RD)); o["bases"] = std::move(b);
    o["loc"] = loc(R->getLocation());
    json::Array fl;
    for (auto *Fd : R->fields()) { json::Object f; f["n"] = Fd->getNameAsString(); f["ty"] = ty(Fd->getType()); f["mutable"] = Fd->isMutable(); fl.push_back(std::move(f)); }
    o["fields"] = std::move(fl);
    if (auto *S = dyn_cast<ClassTemplateSpecializationDecl>(R)) {
      o["tmpl"] = S->getSpecializedTemplate()->getQualifiedNameAsString();
      json::Array ta;
      for (auto &A : S->getTemplateArgs().asArray()) { std::string s; llvm::raw_string_ostream ss(s); A.print(PP, ss, true); ta.push_back(ss.str()); }
      o["targs"] = std::move(ta);
    }
    emit(std::move(o));
    return true;
  }
  bool VisitEnumDecl(EnumDecl *D) {
    if (!D->isThisDeclarationADefinition() || !inRepo(D->getLocation())) return true;
    std::string n = D->getQualifiedNameAsString();
    if (!claim("EN", n + "@" + loc(D->getLocation()))) return true;
    json::Object o; o["t"] = "EN"; o["name"] = n; o["loc"] = loc(D->getLocation());
    json::Array cs; for (auto *E : D->enumerators()) { json::Object c; c["n"] = E->getQualifiedNameAsString(); c["v"] = E->getInitVal().getExtValue(); cs.push_back(std::move(c)); }
    o["consts"] = std::move(cs);
    if (auto *R = dyn_cast<CXXRecordDecl>(D->getDeclContext())) o["cls"] = clsName(R);
    emit(std::move(o));
    return true;
  }
  bool VisitSwitchStmt(SwitchStmt *S) {
    if (!cur) return true;
    json::Array labs; bool def = false;
    for (auto *SC = S->getSwitchCaseList(); SC; SC = SC->getNextSwitchCase()) {
      if (isa<DefaultStmt>(SC)) def = true;
      else if (auto *CS = dyn_cast<CaseStmt>(SC)) {
        const Expr *L = CS->getLHS()->IgnoreParenImpCasts(); if (auto *CE = dyn_cast<ConstantExpr>(L)) L = CE->getSubExpr()->IgnoreParenImpCasts();
        if (auto *DR = dyn_cast<DeclRefExpr>(L)) labs.push_back(DR->getDecl()->getQualifiedNameAsString()); else labs.push_back("?");
      }
    }
    json::Object o; o["t"] = "S"; o["from"] = fkey(cur); o["loc"] = loc(S->getBeginLoc()); o["labels"] = std::move(labs); o["default"] = def;
    std::string cs; llvm::raw_string_ostream ss(cs); S->getCond()->printPretty(ss, nullptr, PP); o["cond"] = ss.str(); emit(std::move(o));
    return true;
  }

  // ------------------------------------------------------------------ constant tables
  json::Value tdump(const Expr *E, int depth) {
    if (!E) return nullptr; E = E->IgnoreParenImpCasts();
    if (auto *CE = dyn_cast<ConstantExpr>(E)) E = CE->getSubExpr()->IgnoreParenImpCasts();
    if (auto *CE = dyn_cast<ExplicitCastExpr>(E)) return tdump(CE->getSubExpr(), depth);
    if (auto *IL = dyn_cast<InitListExpr>(E)) {
      json::Array a; for (auto *I : IL->inits()) a.push_back(tdump(I, depth));
      if (IL->hasArrayFiller()) a.push_back("<filler>");
      return std::move(a);
    }
    if (auto *SL = dyn_cast<StringLiteral>(E)) { json::Object o; o["str"] = SL->getBytes().str(); return std::move(o); }
    if (auto *DR = dyn_cast<DeclRefExpr>(E)) {
      if (auto *EC = dyn_cast<EnumConstantDecl>(DR->getDecl())) { json::Object o; o["enum"] = EC->getQualifiedNameAsString(); o["v"] = EC->getInitVal().getExtValue(); return std::move(o); }
      if (auto *VD = dyn_cast<VarDecl>(DR->getDecl())) {
        json::Object o; o["ref"] = VD->getQualifiedNameAsString();
        if (depth < 3) { const VarDecl *Def = nullptr; if (auto *I = VD->getAnyInitializer(Def)) o["val"] = tdump(I, depth + 1); }
        return std::move(o);
      }
      if (auto *FD = dyn_cast<FunctionDecl>(DR->getDecl())) { json::Object o; o["fn"] = FD->getQualifiedNameAsString(); return std::move(o); }
    }
    if (auto *ME = dyn_cast<MemberExpr>(E)) if (auto *VD = dyn_cast<VarDecl>(ME->getMemberDecl())) {
      json::Object o; o["ref"] = VD->getQualifiedNameAsString();
      if (depth < 3) { const VarDecl *Def = nullptr; if (auto *I = VD->getAnyInitializer(Def)) o["val"] = tdump(I, depth + 1); }
      return std::move(o);
    }
    if (!E->isValueDependent()) {
      Expr::EvalResult R;
      if (E->getType()->isIntegralOrEnumerationType() && E->EvaluateAsInt(R, C)) return R.Val.getInt().getExtValue();
      if (E->getType()->isFloatingType()) { llvm::APFloat F(0.0); if (E->EvaluateAsFloat(F, C)) { json::Object o; double d = F.convertToDouble(); if (d != d) o["float"] = "nan"; else if (d > 1.7e308) o["float"] = "inf"; else if (d < -1.7e308) o["float"] = "-inf"; else o["float"] = d; return std::move(o); } }
    }
    if (auto *UO = dyn_cast<UnaryOperator>(E)) if (UO->getOpcode() == UO_AddrOf) return tdump(UO->getSubExpr(), depth);
    if (auto *AS = dyn_cast<ArraySubscriptExpr>(E)) { json::Object o; o["index"] = tdump(AS->getIdx(), depth); o["base"] = tdump(AS->getBase(), depth + 2); return std::move(o); }
    if (auto *CE = dyn_cast<CXXConstructExpr>(E)) { json::Object o; o["ctor"] = clsName(CE->getConstructor()->getParent()); json::Array a; for (auto *A : CE->arguments()) a.push_back(tdump(A, depth)); o["args"] = std::move(a); return std::move(o); }
    std::string s; llvm::raw_string_ostream ss(s); E->printPretty(ss, nullptr, PP); return "?" + ss.str();
  }
  void dumpTable(VarDecl *D) {
    const Expr *I = D->getInit(); if (!I) return;
    QualType T = D->getType();
    bool agg = T->isArrayType() || isa<InitListExpr>(I->IgnoreParenImpCasts());
    bool scalarConst = T.isConstQualified() && (T->isIntegralOrEnumerationType() || T->isFloatingType());
    if (!agg && !scalarConst) return;
    std::string n = D->getQualifiedNameAsString();
    if (!claim("TB", n + "@" + loc(D->getLocation()))) return;
    json::Object o; o["t"] = "TB"; o["table"] = n; o["type"] = ty(T); o["loc"] = loc(D->getLocation()); o["const"] = T.isConstQualified() || (T->isArrayType() && C.getBaseElementType(T).isConstQualified());
    o["val"] = tdump(I, 0);
    emit(std::move(o));
  }

  // ------------------------------------------------------------------ mini-AST
  int localId(const Decl *D) { auto it = localIds.find(D); if (it != localIds.end()) return it->second; return localIds[D] = nextLocal++; }
  static bool trivialCast(CastKind K) {
    switch (K) {
      case CK_LValueToRValue: case CK_NoOp: case CK_ArrayToPointerDecay: case CK_FunctionToPointerDecay: case CK_DerivedToBase:
      case CK_UncheckedDerivedToBase: case CK_ConstructorConversion: case CK_UserDefinedConversion: case CK_NullToPointer:
      case CK_BuiltinFnToFnPtr: case CK_LValueBitCast: return true;
      default: return false;
    }
  }
  void constVal(const Expr *E, json::Object &o) {
    if (E->isValueDependent() || E->isTypeDependent()) return;
    if (!E->getType()->isIntegralOrEnumerationType()) return;
    Expr::EvalResult R;
    if (E->EvaluateAsInt(R, C, Expr::SE_NoSideEffects)) o["cv"] = R.Val.getInt().getExtValue();
  }
  json::Value xs(const Stmt *S) {  // statement or expression
    if (!S) return nullptr;
    if (auto *E = dyn_cast<Expr>(S)) return xe(E);
    json::Object o; o["l"] = line(S->getBeginLoc());
    if (auto *X = dyn_cast<CompoundStmt>(S)) { o["k"] = "Compound"; json::Array a; for (auto *c : X->body()) a.push_back(xs(c)); o["c"] = std::move(a); }
    else if (auto *X = dyn_cast<IfStmt>(S)) { o["k"] = "If"; if (X->getInit()) o["init"] = xs(X->getInit()); if (X->getConditionVariableDeclStmt()) o["var"] = xs(X->getConditionVariableDeclStmt()); o["cond"] = xe(X->getCond()); o["then"] = xs(X->getThen()); if (X->getElse()) o["else"] = xs(X->getElse()); }
    else if (auto *X = dyn_cast<WhileStmt>(S)) { o["k"] = "While"; o["cond"] = xe(X->getCond()); o["body"] = xs(X->getBody()); }
    else if (auto *X = dyn_cast<DoStmt>(S)) { o["k"] = "Do"; o["cond"] = xe(X->getCond()); o["body"] = xs(X->getBody()); }
    else if (auto *X = dyn_cast<ForStmt>(S)) { o["k"] = "For"; if (X->getInit()) o["init"] = xs(X->getInit()); if (X->getCond()) o["cond"] = xe(X->getCond()); if (X->getInc()) o["inc"] = xe(X->getInc()); o["body"] = xs(X->getBody()); }
    else if (auto *X = dyn_cast<SwitchStmt>(S)) { o["k"] = "Switch"; o["cond"] = xe(X->getCond()); o["body"] = xs(X->getBody()); }
    else if (auto *X = dyn_cast<CaseStmt>(S)) { o["k"] = "Case"; o["v"] = xe(X->getLHS()); o["sub"] = xs(X->getSubStmt()); }
    else if (auto *X = dyn_cast<DefaultStmt>(S)) { o["k"] = "Default"; o["sub"] = xs(X->getSubStmt()); }
    else if (isa<BreakStmt>(S)) o["k"] = "Break";
    else if (isa<ContinueStmt>(S)) o["k"] = "Continue";
    else if (auto *X = dyn_cast<ReturnStmt>(S)) { o["k"] = "Return"; if (X->getRetValue()) o["e"] = xe(X->getRetValue()); }
    else if (auto *X = dyn_cast<DeclStmt>(S)) {
      o["k"] = "Decl"; json::Array vs;
      for (auto *D : X->decls()) if (auto *VD = dyn_cast<VarDecl>(D)) {
        json::Object v; v["n"] = VD->getNameAsString(); v["id"] = localId(VD); v["ty"] = ty(VD->getType()); if (VD->isStaticLocal()) v["static"] = true;
        if (VD->getInit()) v["init"] = xe(VD->getInit());
        vs.push_back(std::move(v));
      }
      o["vars"] = std::move(vs);
    }
    else if (auto *X = dyn_cast<CXXTryStmt>(S)) {
      o["k"] = "Try"; o["body"] = xs(X->getTryBlock()); json::Array hs;
      for (unsigned i = 0; i < X->getNumHandlers(); ++i) { auto *H = X->getHandler(i); json::Object h; h["ty"] = H->getExceptionDecl() ? ty(H->getCaughtType().getNonReferenceType().getUnqualifiedType()) : "..."; if (H->getExceptionDecl()) { h["n"] = H->getExceptionDecl()->getNameAsString(); h["id"] = localId(H->getExceptionDecl()); } h["body"] = xs(H->getHandlerBlock()); hs.push_back(std::move(h)); }
      o["h"] = std::move(hs);
    }
    else if (auto *X = dyn_cast<GotoStmt>(S)) { o["k"] = "Goto"; o["label"] = X->getLabel()->getNameAsString(); }
    else if (auto *X = dyn_cast<LabelStmt>(S)) { o["k"] = "Label"; o["label"] = X->getDecl()->getNameAsString(); o["sub"] = xs(X->getSubStmt()); }
    else if (isa<NullStmt>(S)) o["k"] = "Null";
    else { o["k"] = "?"; o["cls"] = S->getStmtClassName(); json::Array a; for (auto *c : S->children()) a.push_back(xs(c)); o["c"] = std::move(a); }
    return std::move(o);
  }
  json::Array xargs(llvm::iterator_range<CallExpr::const_arg_iterator> R) { json::Array a; for (auto *A : R) a.push_back(xe(A)); return a; }
  json::Value xe(const Expr *E) {
    if (!E) return nullptr;
    // transparent wrappers
    for (;;) {
      if (auto *P = dyn_cast<ParenExpr>(E)) { E = P->getSubExpr(); continue; }
      if (auto *P = dyn_cast<ExprWithCleanups>(E)) { E = P->getSubExpr(); continue; }
      if (auto *P = dyn_cast<MaterializeTemporaryExpr>(E)) { E = P->getSubExpr(); continue; }
      if (auto *P = dyn_cast<CXXBindTemporaryExpr>(E)) { E = P->getSubExpr(); continue; }
      if (auto *P = dyn_cast<ConstantExpr>(E)) { E = P->getSubExpr(); continue; }
      if (auto *P = dyn_cast<CXXDefaultArgExpr>(E)) { E = P->getExpr(); continue; }
      if (auto *P = dyn_cast<CXXDefaultInitExpr>(E)) { E = P->getExpr(); continue; }
      if (auto *P = dyn_cast<SubstNonTypeTemplateParmExpr>(E)) { E = P->getReplacement(); continue; }
      if (auto *P = dyn_cast<ImplicitCastExpr>(E)) { if (trivialCast(P->getCastKind())) { E = P->getSubExpr(); continue; } }
      break;
    }
    json::Object o;
    if (auto *X = dyn_cast<CastExpr>(E)) {
      o["k"] = "Cast"; o["ck"] = X->getCastKindName(); o["to"] = ty(X->getType()); o["from"] = ty(X->getSubExpr()->getType()); o["expl"] = isa<ExplicitCastExpr>(X); o["e"] = xe(X->getSubExpr()); o["l"] = line(E->getBeginLoc());
      constVal(E, o);
      return std::move(o);
    }
    if (auto *X = dyn_cast<CXXMemberCallExpr>(E)) {
      o["k"] = "MCall"; o["l"] = line(E->getBeginLoc()); o["ty"] = ty(E->getType());
      if (auto *M = X->getMethodDecl()) {
        o["fn"] = M->getQualifiedNameAsString(); o["n"] = M->getNameAsString(); o["usr"] = usrOf(M); o["const"] = M->isConst(); o["cls"] = clsName(M->getParent());
        bool virt = M->isVirtual(); if (auto *ME = dyn_cast<MemberExpr>(X->getCallee()->IgnoreParens())) if (ME->hasQualifier()) { virt = false; o["qual"] = true; } o["virt"] = virt;
        if (isa<CXXConversionDecl>(M)) o["conv"] = true;
      } else { o["fn"] = "<memptr>"; o["callee"] = xe(X->getCallee()); }
      o["obj"] = xe(X->getImplicitObjectArgument()); o["args"] = xargs(X->arguments());
      return std::move(o);
    }
    if (auto *X = dyn_cast<CXXOperatorCallExpr>(E)) {
      o["k"] = "OpCall"; o["l"] = line(E->getBeginLoc()); o["op"] = getOperatorSpelling(X->getOperator()); o["ty"] = ty(E->getType());
      if (auto *FD = X->getDirectCallee()) { o["fn"] = FD->getQualifiedNameAsString(); o["usr"] = usrOf(FD); if (auto *M = dyn_cast<CXXMethodDecl>(FD)) { o["const"] = M->isConst(); o["cls"] = clsName(M->getParent()); } }
      o["args"] = xargs(X->arguments());
      return std::move(o);
    }
    if (auto *X = dyn_cast<CallExpr>(E)) {
      o["k"] = "Call"; o["l"] = line(E->getBeginLoc()); o["ty"] = ty(E->getType());
      if (auto *FD = X->getDirectCallee()) {
        o["fn"] = FD->getQualifiedNameAsString(); o["n"] = FD->getNameAsString(); o["usr"] = usrOf(FD);
        if (auto *M = dyn_cast<CXXMethodDecl>(FD)) { o["cls"] = clsName(M->getParent()); o["static"] = true; }
        if (FD->getBuiltinID()) o["builtin"] = true;
      } else { o["fn"] = "<indirect>"; o["callee"] = xe(X->getCallee()); }
      o["args"] = xargs(X->arguments());
      return std::move(o);
    }
    if (auto *X = dyn_cast<CXXConstructExpr>(E)) {
      o["k"] = "Ctor"; o["l"] = line(E->getBeginLoc()); o["cls"] = clsName(X->getConstructor()->getParent()); o["usr"] = usrOf(X->getConstructor()); o["ty"] = ty(E->getType());
      if (isa<CXXTemporaryObjectExpr>(X)) o["temp"] = true;
      if (X->getConstructor()->isCopyOrMoveConstructor()) o["copy"] = true;
      json::Array a; for (auto *A : X->arguments()) a.push_back(xe(A)); o["args"] = std::move(a);
      return std::move(o);
    }
    if (auto *X = dyn_cast<MemberExpr>(E)) {
      o["k"] = "Member"; o["m"] = X->getMemberDecl()->getNameAsString(); o["arrow"] = X->isArrow(); o["ty"] = ty(E->getType());
      if (auto *FD = dyn_cast<FieldDecl>(X->getMemberDecl())) o["field"] = FD->getParent()->getQualifiedNameAsString() + "::" + FD->getNameAsString();
      else if (auto *VD = dyn_cast<VarDecl>(X->getMemberDecl())) { o["q"] = VD->getQualifiedNameAsString(); o["d"] = "global"; }
      else if (auto *MD = dyn_cast<CXXMethodDecl>(X->getMemberDecl())) { o["q"] = MD->getQualifiedNameAsString(); o["d"] = "func"; }
      o["obj"] = xe(X->getBase()); constVal(E, o);
      return std::move(o);
    }
    if (auto *X = dyn_cast<DeclRefExpr>(E)) {
      o["k"] = "Ref"; const ValueDecl *D = X->getDecl(); o["n"] = D->getNameAsString(); o["ty"] = ty(E->getType());
      if (auto *EC = dyn_cast<EnumConstantDecl>(D)) { o["d"] = "enum"; o["q"] = EC->getQualifiedNameAsString(); o["cv"] = EC->getInitVal().getExtValue(); }
      else if (auto *PV = dyn_cast<ParmVarDecl>(D)) { o["d"] = "param"; o["id"] = localId(PV); }
      else if (auto *VD = dyn_cast<VarDecl>(D)) {
        if (VD->hasGlobalStorage()) { o["d"] = VD->isStaticLocal() ? "staticlocal" : "global"; o["q"] = VD->getQualifiedNameAsString(); if (VD->getType().isConstQualified()) o["constvar"] = true; }
        else { o["d"] = "local"; o["id"] = localId(VD); }
        constVal(E, o);
      }
      else if (auto *FD = dyn_cast<FunctionDecl>(D)) { o["d"] = "func"; o["q"] = FD->getQualifiedNameAsString(); o["usr"] = usrOf(FD); }
      else o["d"] = "other";
      return std::move(o);
    }
    if (isa<CXXThisExpr>(E)) { o["k"] = "This"; return std::move(o); }
    if (auto *X = dyn_cast<IntegerLiteral>(E)) { o["k"] = "Int"; o["cv"] = X->getValue().isSignedIntN(64) || X->getValue().getActiveBits() < 64 ? (int64_t)X->getValue().getLimitedValue() : (int64_t)-1; o["ty"] = ty(E->getType()); return std::move(o); }
    if (auto *X = dyn_cast<FloatingLiteral>(E)) { o["k"] = "Float"; { double d = X->getValueAsApproximateDouble(); if (d == d && d < 1.7e308 && d > -1.7e308) o["v"] = d; else o["v"] = "nonfinite"; } return std::move(o); }
    if (auto *X = dyn_cast<StringLiteral>(E)) { o["k"] = "Str"; o["v"] = X->getBytes().str(); return std::move(o); }
    if (auto *X = dyn_cast<CXXBoolLiteralExpr>(E)) { o["k"] = "Bool"; o["cv"] = X->getValue() ? 1 : 0; return std::move(o); }
    if (auto *X = dyn_cast<CharacterLiteral>(E)) { o["k"] = "Char"; o["cv"] = (int64_t)X->getValue(); return std::move(o); }
    if (isa<CXXNullPtrLiteralExpr>(E) || isa<GNUNullExpr>(E)) { o["k"] = "Nullptr"; return std::move(o); }
    if (auto *X = dyn_cast<BinaryOperator>(E)) { o["k"] = "Bin"; o["op"] = X->getOpcodeStr().str(); o["l"] = line(E->getBeginLoc()); o["ty"] = ty(E->getType()); o["lhs"] = xe(X->getLHS()); o["rhs"] = xe(X->getRHS()); constVal(E, o); return std::move(o); }
    if (auto *X = dyn_cast<UnaryOperator>(E)) { o["k"] = "Un"; o["op"] = UnaryOperator::getOpcodeStr(X->getOpcode()).str(); if (X->isPostfix()) o["post"] = true; o["ty"] = ty(E->getType()); o["e"] = xe(X->getSubExpr()); o["l"] = line(E->getBeginLoc()); constVal(E, o); return std::move(o); }
    if (auto *X = dyn_cast<ConditionalOperator>(E)) { o["k"] = "Cond"; o["c"] = xe(X->getCond()); o["t"] = xe(X->getTrueExpr()); o["f"] = xe(X->getFalseExpr()); o["ty"] = ty(E->getType()); return std::move(o); }
    if (auto *X = dyn_cast<ArraySubscriptExpr>(E)) { o["k"] = "Index"; o["b"] = xe(X->getBase()); o["i"] = xe(X->getIdx()); o["ty"] = ty(E->getType()); o["l"] = line(E->getBeginLoc()); return std::move(o); }
    if (auto *X = dyn_cast<CXXNewExpr>(E)) {
      o["k"] = "New"; o["ty"] = ty(X->getAllocatedType()); o["l"] = line(E->getBeginLoc());
      json::Array a; for (unsigned i = 0; i < X->getNumPlacementArgs(); ++i) a.push_back(xe(X->getPlacementArg(i))); o["place"] = std::move(a);
      if (X->getInitializer()) o["init"] = xe(X->getInitializer());
      if (X->isArray() && X->getArraySize()) o["array"] = xe(*X->getArraySize());
      if (auto *ON = X->getOperatorNew()) o["opnew"] = ON->getQualifiedNameAsString();
      return std::move(o);
    }
    if (auto *X = dyn_cast<CXXDeleteExpr>(E)) { o["k"] = "Delete"; o["e"] = xe(X->getArgument()); o["l"] = line(E->getBeginLoc()); if (X->isArrayForm()) o["array"] = true; return std::move(o); }
    if (auto *X = dyn_cast<CXXThrowExpr>(E)) { o["k"] = "Throw"; o["l"] = line(E->getBeginLoc()); if (X->getSubExpr()) { o["e"] = xe(X->getSubExpr()); o["ty"] = ty(X->getSubExpr()->getType().getUnqualifiedType()); } return std::move(o); }
    if (auto *X = dyn_cast<UnaryExprOrTypeTraitExpr>(E)) { o["k"] = "Sizeof"; if (X->isArgumentType()) o["of"] = ty(X->getArgumentType()); else o["e"] = xe(X->getArgumentExpr()); constVal(E, o); return std::move(o); }
    if (auto *X = dyn_cast<InitListExpr>(E)) { o["k"] = "Init"; json::Array a; for (auto *I : X->inits()) a.push_back(xe(I)); o["c"] = std::move(a); return std::move(o); }
    if (auto *X = dyn_cast<CXXFunctionalCastExpr>(E)) { (void)X; }
    if (auto *X = dyn_cast<CXXScalarValueInitExpr>(E)) { o["k"] = "ZeroInit"; o["ty"] = ty(X->getType()); return std::move(o); }
    if (auto *X = dyn_cast<CXXPseudoDestructorExpr>(E)) { o["k"] = "PseudoDtor"; o["e"] = xe(X->getBase()); return std::move(o); }
    if (auto *X = dyn_cast<CompoundAssignOperator>(E)) { (void)X; }
    o["k"] = "?"; o["cls"] = E->getStmtClassName(); o["ty"] = ty(E->getType());
    json::Array a; for (auto *c : E->children()) a.push_back(xs(c)); o["c"] = std::move(a);
    return std::move(o);
  }
  void dumpFunction(const FunctionDecl *F) {
    std::string k = usrOf(F); if (k.empty()) return;
    localIds.clear(); nextLocal = 0;
    json::Object o; o["usr"] = k; o["name"] = F->getQualifiedNameAsString(); o["fq"] = fqName(F); o["file"] = file(F->getLocation()); o["line"] = line(F->getLocation());
    o["ret"] = ty(F->getReturnType());
    json::Array ps; for (auto *P : F->parameters()) { json::Object p; p["n"] = P->getNameAsString(); p["ty"] = ty(P->getType()); p["id"] = localId(P); ps.push_back(std::move(p)); } o["params"] = std::move(ps);
    if (auto *M = dyn_cast<CXXMethodDecl>(F)) { o["cls"] = clsName(M->getParent()); o["const"] = M->isConst(); }
    if (auto *CD = dyn_cast<CXXConstructorDecl>(F)) {
      json::Array is;
      for (auto *I : CD->inits()) {
        json::Object i; if (I->isAnyMemberInitializer()) i["field"] = I->getAnyMember()->getNameAsString(); else if (I->isBaseInitializer()) i["base"] = ty(QualType(I->getBaseClass(), 0));
        i["written"] = I->isWritten(); i["e"] = xe(I->getInit()); is.push_back(std::move(i));
      }
      o["inits"] = std::move(is);
    }
    o["body"] = xs(F->getBody());
    AS << json::Value(std::move(o)) << "\n";
  }
};

struct Cons : ASTConsumer {
  std::string out;
  Cons(std::string o) : out(o) {}
  void HandleTranslationUnit(ASTContext &C) override {
    std::error_code EC; llvm::raw_fd_ostream OS(out + ".facts.jsonl", EC); llvm::raw_fd_ostream AS(out + ".ast.jsonl", EC);
    V v(C, OS, AS); v.TraverseDecl(C.getTranslationUnitDecl());
    unsigned nerr = C.getDiagnostics().getClient() ? C.getDiagnostics().getClient()->getNumErrors() : 0;
    json::Object o; o["t"] = "U"; o["errors"] = (int64_t)nerr; OS << json::Value(std::move(o)) << "\n";
  }
};
struct Act : ASTFrontendAction {
  std::unique_ptr<ASTConsumer> CreateASTConsumer(CompilerInstance &CI, StringRef F) override {
    std::string n = F.str(); for (auto &c : n) if (c == '/') c = '_';
    return std::make_unique<Cons>(OutDir + "/" + n);
  }
};
int main(int argc, const char **argv) {
  auto E = CommonOptionsParser::create(argc, argv, Cat);
  if (!E) { llvm::errs() << toString(E.takeError()); return 1; }
  ClangTool T(E->getCompilations(), E->getSourcePathList());
  std::vector<std::unique_ptr<llvm::MemoryBuffer>> keep;
  std::vector<std::unique_ptr<std::string>> keepPaths;  // mapVirtualFile stores StringRefs
  if (getenv("XV_DEBUG")) llvm::errs() << "maps: " << Maps.size() << "\n";
  for (auto &m : Maps) {
    auto pos = m.find('=');
    if (pos == std::string::npos) continue;
    auto buf = llvm::MemoryBuffer::getFile(m.substr(pos + 1));
    if (!buf) { llvm::errs() << "cannot read " << m.substr(pos + 1) << "\n"; return 1; }
    keep.push_back(std::move(*buf));
    keepPaths.push_back(std::make_unique<std::string>(m.substr(0, pos)));
    T.mapVirtualFile(*keepPaths.back(), keep.back()->getBuffer());
  }
  return T.run(newFrontendActionFactory<Act>().get());
}
