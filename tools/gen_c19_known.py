#!/usr/bin/env python3
"""Adds a known-finding entry to known_findings.json for every C19-R1 (destructor, allocating callee) pair reported by the last
`./check C19` run (evidence/violations/C19-C19-R1-*.json), annotated with the allocation-failure sweep that replayed it
(replay/alloc_sweep_summary.json).  Run by hand after triage; the checks never write the file."""
import json, glob, os, re
V = os.path.dirname(os.path.dirname(os.path.abspath(__file__)))
kf = json.load(open(os.path.join(V, 'known_findings.json')))
sweep = json.load(open(os.path.join(V, 'replay', 'alloc_sweep_summary.json')))
seen = sweep['functions_seen_in_terminate_backtraces']
kf['known'] = [k for k in kf['known'] if k.get('rule') != 'C19-R1']
n = 0; direct = 0
for p in sorted(glob.glob(os.path.join(V, 'evidence', 'violations', 'C19-C19-R1-*.json'))):
    v = json.load(open(p))
    chain = v.get('chain') or []
    fns = [c for c in chain if not c.startswith('allocates at')]
    hit = None
    for fn in fns:
        key = fn.replace('::~', '::~')
        if fn in seen:
            hit = (fn, seen[fn][0]); break
    mech = 'lazily allocated XalanList sentinel (getListHead)' if any('getListHead' in c for c in chain) else ('container growth / node allocation (%s)' % fns[-1] if fns else 'allocation')
    if hit:
        direct += 1
        replay = 'replayed: replay/mm_driver scen %d %d replay/d.xml replay/s2.xsl ends in std::terminate with %s on the stack' % (hit[1][0], hit[1][1], hit[0])
    else:
        replay = 'mechanism replayed (%s; see replay/alloc_sweep_summary.json: 296 of 6648 allocation indices end in std::terminate/SIGSEGV), this destructor not individually reached by the three sweep scenarios' % mech
    kf['known'].append({'property': 'C19', 'rule': 'C19-R1', 'site': v['site'],
                        'what': 'destructor can allocate (%s); an allocation failure there calls std::terminate. Not repaired: the repair changes XalanList/XalanMap/ArenaAllocator teardown used by every container instance' % mech,
                        'chain': chain, 'replay': replay})
    n += 1
json.dump(kf, open(os.path.join(V, 'known_findings.json'), 'w'), indent=1)
print('C19-R1 known findings: %d (%d with a sweep index on the same stack)' % (n, direct))
